//! D(ir): turn a reference IR into an `async_graphql::dynamic::Schema` whose
//! resolvers are data-driven exactly like S1's (world table in request data,
//! `S:`/`F:` log, optional gates), so that dynamic schemas can be *generated*.

use crate::s1::{Wd, W};
use agv_refgql::ast::{Type, Value as RV};
use agv_refgql::exec::{Ans, TableWorld};
use agv_refgql::schema::{Kind, Schema as Ir};
use async_graphql::dynamic::*;
use async_graphql::{Name, Value};
use futures_util::stream;
use std::sync::Arc;

pub fn type_ref(t: &Type) -> TypeRef {
    match t {
        Type::Named(n) => TypeRef::Named(n.clone().into()),
        Type::List(i) => TypeRef::List(Box::new(type_ref(i))),
        Type::NonNull(i) => TypeRef::NonNull(Box::new(type_ref(i))),
    }
}

pub fn const_value(v: &RV) -> Value {
    match v {
        RV::Var(_) | RV::Null => Value::Null,
        RV::Int(t) => t.parse::<i64>().map(Value::from).unwrap_or_else(|_| t.parse::<f64>().map(Value::from).unwrap_or(Value::Null)),
        RV::Float(t) => t.parse::<f64>().map(Value::from).unwrap_or(Value::Null),
        RV::Str(s) => Value::String(s.clone()),
        RV::Bool(b) => Value::Boolean(*b),
        RV::Enum(e) => Value::Enum(Name::new(e)),
        RV::List(l) => Value::List(l.iter().map(|x| const_value(&x.v)).collect()),
        RV::Object(o) => Value::Object(o.iter().map(|(k, x)| (Name::new(&k.s), const_value(&x.v))).collect()),
    }
}

/// marker carried by object values (the data lives in the world table)
pub struct ObjMarker;

/// How enum / list values are encoded by the dynamic resolvers (both encodings are legal).
#[derive(Clone, Copy, Debug, PartialEq, Eq)]
pub struct Encoding {
    /// enums as `Value::String` instead of `Value::Enum`
    pub enum_as_string: bool,
    /// lists of leaves as one `Value::List` instead of `FieldValue::list`
    pub list_as_value: bool,
}
impl Default for Encoding {
    fn default() -> Self {
        Encoding { enum_as_string: false, list_as_value: false }
    }
}

fn leaf_value(ir: &Ir, ty: &Type, a: &Ans, enc: Encoding) -> Value {
    match a {
        Ans::Int(i) => Value::from(*i),
        Ans::Float(f) => async_graphql::Number::from_f64(*f).map(Value::Number).unwrap_or(Value::Null),
        Ans::Str(s) => Value::String(s.clone()),
        Ans::Bool(b) => Value::Boolean(*b),
        Ans::Enum(e) => {
            if enc.enum_as_string {
                Value::String(e.clone())
            } else {
                Value::Enum(Name::new(e))
            }
        }
        Ans::WrongKind => wrong_kind_value(ir, ty),
        _ => Value::Null,
    }
}

/// a value whose kind cannot fit `ty`
fn wrong_kind_value(ir: &Ir, ty: &Type) -> Value {
    match ty.nullable() {
        Type::List(_) => Value::from(7),
        Type::Named(n) => match ir.ty(n).map(|t| &t.kind) {
            Some(Kind::Scalar) if n == "Int" || n == "Float" => Value::String("not-a-number".into()),
            Some(Kind::Scalar) if n == "Boolean" => Value::from(7),
            Some(Kind::Scalar) => Value::List(vec![Value::from(7)]),
            Some(Kind::Enum { .. }) => Value::Enum(Name::new("NOT_AN_ITEM")),
            _ => Value::from(7),
        },
        Type::NonNull(_) => unreachable!(),
    }
}

/// Build the value the resolver at `path` returns for declared type `ty`.
/// `Err(())` = the resolver fails.
fn build_value<'a>(ir: &Ir, wd: &Wd, path: &str, ty: &Type, top: bool, enc: Encoding) -> Result<Option<FieldValue<'a>>, ()> {
    let ans = wd.table.get(path).cloned().unwrap_or_else(|| TableWorld::default_for(ir, ty));
    match ans {
        Ans::Err => {
            if top {
                Err(())
            } else {
                Ok(Some(FieldValue::value(Value::Null)))
            }
        }
        Ans::Null => Ok(if top { None } else { Some(FieldValue::value(Value::Null)) }),
        Ans::List(n) => {
            let item_ty = match ty.nullable() {
                Type::List(i) => (**i).clone(),
                _ => return Ok(Some(FieldValue::value(Value::from(7)))),
            };
            let leaf_items = ir.is_leaf(item_ty.base()) && !matches!(item_ty.nullable(), Type::List(_));
            if enc.list_as_value && leaf_items {
                let mut vs = Vec::new();
                for i in 0..n {
                    let p = format!("{path}.{i}");
                    let a = wd.table.get(&p).cloned().unwrap_or_else(|| TableWorld::default_for(ir, &item_ty));
                    vs.push(leaf_value(ir, &item_ty, &a, enc));
                }
                return Ok(Some(FieldValue::value(Value::List(vs))));
            }
            let mut items = Vec::new();
            for i in 0..n {
                let p = format!("{path}.{i}");
                items.push(build_value(ir, wd, &p, &item_ty, false, enc)?.unwrap_or_else(|| FieldValue::value(Value::Null)));
            }
            Ok(Some(FieldValue::list(items)))
        }
        Ans::Obj(t) => Ok(Some(FieldValue::owned_any(ObjMarker).with_type(t))),
        Ans::WrongKind => Ok(Some(FieldValue::value(wrong_kind_value(ir, ty)))),
        leaf => Ok(Some(FieldValue::value(leaf_value(ir, ty, &leaf, enc)))),
    }
}

fn make_field(ir: Arc<Ir>, name: &str, ty: &Type, args: &[agv_refgql::schema::Arg], enc: Encoding) -> Field {
    let ty2 = ty.clone();
    let mut f = Field::new(name.to_string(), type_ref(ty), move |ctx| {
        let ir = ir.clone();
        let ty = ty2.clone();
        FieldFuture::new(async move {
            let wd = ctx.data_unchecked::<W>().clone();
            let path = ctx.ctx.path_node.map(|p| p.to_string()).unwrap_or_default();
            wd.log(format!("S:{path}"));
            if let Some(h) = &wd.gates {
                h.gate(path.clone()).await;
            }
            let r = build_value(&ir, &wd, &path, &ty, true, enc);
            wd.log(format!("F:{path}"));
            match r {
                Ok(v) => Ok(v),
                Err(()) => Err(async_graphql::Error::new("boom")),
            }
        })
    });
    for a in args {
        let mut iv = InputValue::new(a.name.clone(), type_ref(&a.ty));
        if let Some(d) = &a.default {
            iv = iv.default_value(const_value(d));
        }
        f = f.argument(iv);
    }
    f
}

/// Build the dynamic twin of `ir`. Custom scalars get an always-true validator
/// unless named `Even` (accepts even integers only — a validated custom scalar).
pub fn build(ir: &Ir, enc: Encoding) -> Result<Schema, String> {
    build_with(ir, enc, |b| b)
}

pub fn build_with(ir: &Ir, enc: Encoding, cfg: impl FnOnce(SchemaBuilder) -> SchemaBuilder) -> Result<Schema, String> {
    let irc = Arc::new(ir.clone());
    let mut b = Schema::build(&ir.query, ir.mutation.as_deref(), ir.subscription.as_deref());
    for (name, t) in &ir.types {
        if agv_refgql::schema::BUILTIN_SCALARS.contains(&name.as_str()) {
            continue;
        }
        match &t.kind {
            Kind::Scalar => {
                let mut s = Scalar::new(name.clone());
                if name == "Even" {
                    s = s.validator(|v| matches!(v, Value::Number(n) if n.as_i64().map(|i| i % 2 == 0).unwrap_or(false)));
                }
                b = b.register(s);
            }
            Kind::Object { interfaces, fields } => {
                if Some(name) == ir.subscription.as_ref() {
                    let mut s = Subscription::new(name.clone());
                    for f in fields {
                        let irc2 = irc.clone();
                        let fname = f.name.clone();
                        let fty = f.ty.clone();
                        let mut sf = SubscriptionField::new(f.name.clone(), type_ref(&f.ty), move |ctx| {
                            let ir = irc2.clone();
                            let fname = fname.clone();
                            let fty = fty.clone();
                            SubscriptionFieldFuture::new(async move {
                                let wd = ctx.data_unchecked::<W>().clone();
                                wd.log(format!("S:{fname}"));
                                let n = wd.events;
                                let items: Vec<Result<FieldValue, async_graphql::Error>> = (0..n)
                                    .map(|_| match build_value(&ir, &wd, &fname, &fty, true, enc) {
                                        Ok(Some(v)) => Ok(v),
                                        Ok(None) => Ok(FieldValue::value(Value::Null)),
                                        Err(()) => Err(async_graphql::Error::new("boom")),
                                    })
                                    .collect();
                                Ok(stream::iter(items))
                            })
                        });
                        for a in &f.args {
                            let mut iv = InputValue::new(a.name.clone(), type_ref(&a.ty));
                            if let Some(d) = &a.default {
                                iv = iv.default_value(const_value(d));
                            }
                            sf = sf.argument(iv);
                        }
                        s = s.field(sf);
                    }
                    b = b.register(s);
                    continue;
                }
                let mut o = Object::new(name.clone());
                for i in interfaces {
                    o = o.implement(i.clone());
                }
                for f in fields {
                    o = o.field(make_field(irc.clone(), &f.name, &f.ty, &f.args, enc));
                }
                b = b.register(o);
            }
            Kind::Interface { interfaces, fields } => {
                let mut i = Interface::new(name.clone());
                for p in interfaces {
                    i = i.implement(p.clone());
                }
                for f in fields {
                    let mut fi = InterfaceField::new(f.name.clone(), type_ref(&f.ty));
                    for a in &f.args {
                        let mut iv = InputValue::new(a.name.clone(), type_ref(&a.ty));
                        if let Some(d) = &a.default {
                            iv = iv.default_value(const_value(d));
                        }
                        fi = fi.argument(iv);
                    }
                    i = i.field(fi);
                }
                b = b.register(i);
            }
            Kind::Union { members } => {
                let mut u = Union::new(name.clone());
                for m in members {
                    u = u.possible_type(m.clone());
                }
                b = b.register(u);
            }
            Kind::Enum { values } => {
                let mut e = Enum::new(name.clone());
                for (v, _, _) in values {
                    e = e.item(EnumItem::new(v.clone()));
                }
                b = b.register(e);
            }
            Kind::Input { fields, one_of } => {
                let mut io = InputObject::new(name.clone());
                for a in fields {
                    let mut iv = InputValue::new(a.name.clone(), type_ref(&a.ty));
                    if let Some(d) = &a.default {
                        iv = iv.default_value(const_value(d));
                    }
                    io = io.field(iv);
                }
                if *one_of {
                    io = io.oneof();
                }
                b = b.register(io);
            }
        }
    }
    cfg(b).finish().map_err(|e| format!("{e:?}"))
}

/// Execute one request on a dynamic schema with a world (all resolvers ready).
pub fn run_dynamic(schema: &Schema, query: &str, op: Option<&str>, vars: &serde_json::Map<String, serde_json::Value>, wd: W) -> Result<async_graphql::Response, String> {
    let mut req = async_graphql::Request::new(query).variables(async_graphql::Variables::from_json(serde_json::Value::Object(vars.clone()))).data(wd);
    if let Some(o) = op {
        req = req.operation_name(o);
    }
    agv_engine::sched::drive(schema.execute(req)).ok_or_else(|| "dynamic execute future parked without a waker".to_string())
}

pub fn run_dynamic_stream(schema: &Schema, query: &str, vars: &serde_json::Map<String, serde_json::Value>, wd: W) -> Result<Vec<async_graphql::Response>, String> {
    use futures_util::StreamExt;
    let req = async_graphql::Request::new(query).variables(async_graphql::Variables::from_json(serde_json::Value::Object(vars.clone()))).data(wd);
    agv_engine::sched::drive(schema.execute_stream(req).collect::<Vec<_>>()).ok_or_else(|| "dynamic execute_stream parked without a waker".to_string())
}
