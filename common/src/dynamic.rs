//! D(ir): turn a reference IR into an `async_graphql::dynamic::Schema` whose
//! resolvers are data-driven exactly like S1's (world table in request data,
//! `S:`/`F:` log, optional gates), so that dynamic schemas can be *generated*.

use crate::s1::{Wd, W};
use agv_refgql::ast::{Type, Value as RV};
use agv_refgql::exec::{Ans, TableWorld};
use agv_refgql::schema::{Kind, Schema as Ir};
use async_graphql::dynamic::*;
use async_graphql::{Name, Value};
use futures_util::stream;
use std::sync::Arc;

pub fn type_ref(t: &Type) -> TypeRef {
    match t {
        Type::Named(n) => TypeRef::Named(n.clone().into()),
        Type::List(i) => TypeRef::List(Box::new(type_ref(i))),
        Type::NonNull(i) => TypeRef::NonNull(Box::new(type_ref(i))),
    }
}

pub fn const_value(v: &RV) -> Value {
    match v {
        RV::Var(_) | RV::Null => Value::Null,
        RV::Int(t) => t.parse::<i64>().map(Value::from).unwrap_or_else(|_| t.parse::<f64>().map(Value::from).unwrap_or(Value::Null)),
        RV::Float(t) => t.parse::<f64>().map(Value::from).unwrap_or(Value::Null),
        RV::Str(s) => Value::String(s.clone()),
        RV::Bool(b) => Value::Boolean(*b),
        RV::Enum(e) => Value::Enum(Name::new(e)),
        RV::List(l) => Value::List(l.iter().map(|x| const_value(&x.v)).collect()),
        RV::Object(o) => Value::Object(o.iter().map(|(k, x)| (Name::new(&k.s), const_value(&x.v))).collect()),
    }
}

/// marker carried by object values (the data lives in the world table)
pub struct ObjMarker;

/// How enum / list values are encoded by the dynamic resolvers (both encodings are legal).
#[derive(Clone, Copy, Debug, PartialEq, Eq)]
pub struct Encoding {
    /// enums as `Value::String` instead of `Value::Enum`
    pub enum_as_string: bool,
    /// lists of leaves as one `Value::List` instead of `FieldValue::list`
    pub list_as_value: bool,
}
impl Default for Encoding {
    fn default() -> Self {
        Encoding { enum_as_string: false, list_as_value: false }
    }
}

/// Optional descriptive metadata for `build_meta` (C17 / C18). `Meta::default()` adds nothing,
/// which is what `build` / `build_with` use.
#[derive(Clone, Debug, Default)]
pub struct Meta {
    /// transfer descriptions and deprecations (types, fields, arguments, enum values, input
    /// fields) from the IR
    pub describe: bool,
    /// scalar name → `specifiedBy` URL
    pub specified_by: std::collections::BTreeMap<String, String>,
    /// element path (`T`, `T.f`, `T.f.a`, `E.V`, `In.f`) → applied directives (name, arguments)
    pub applied: std::collections::BTreeMap<String, Vec<(String, Vec<(String, Value)>)>>,
}

impl Meta {
    fn directives(&self, path: &str) -> Vec<Directive> {
        self.applied
            .get(path)
            .map(|ds| ds.iter().map(|(n, args)| args.iter().fold(Directive::new(n.clone()), |d, (k, v)| d.argument(k.clone(), v.clone()))).collect())
            .unwrap_or_default()
    }
}

fn make_input_value(a: &agv_refgql::schema::Arg, path: &str, meta: &Meta) -> InputValue {
    let mut iv = InputValue::new(a.name.clone(), type_ref(&a.ty));
    if let Some(d) = &a.default {
        iv = iv.default_value(const_value(d));
    }
    if meta.describe {
        if let Some(d) = &a.desc {
            iv = iv.description(d.clone());
        }
        if let Some(r) = &a.deprecated {
            iv = iv.deprecation(r.as_deref());
        }
    }
    for d in meta.directives(path) {
        iv = iv.directive(d);
    }
    iv
}

fn leaf_value(ir: &Ir, ty: &Type, a: &Ans, enc: Encoding) -> Value {
    match a {
        Ans::Int(i) => Value::from(*i),
        Ans::Float(f) => async_graphql::Number::from_f64(*f).map(Value::Number).unwrap_or(Value::Null),
        Ans::Str(s) => Value::String(s.clone()),
        Ans::Bool(b) => Value::Boolean(*b),
        Ans::Enum(e) => {
            if enc.enum_as_string {
                Value::String(e.clone())
            } else {
                Value::Enum(Name::new(e))
            }
        }
        Ans::WrongKind => wrong_kind_value(ir, ty),
        _ => Value::Null,
    }
}

/// a value whose kind cannot fit `ty`
fn wrong_kind_value(ir: &Ir, ty: &Type) -> Value {
    match ty.nullable() {
        Type::List(_) => Value::from(7),
        Type::Named(n) => match ir.ty(n).map(|t| &t.kind) {
            Some(Kind::Scalar) if n == "Int" || n == "Float" => Value::String("not-a-number".into()),
            Some(Kind::Scalar) if n == "Boolean" => Value::from(7),
            Some(Kind::Scalar) => Value::List(vec![Value::from(7)]),
            Some(Kind::Enum { .. }) => Value::Enum(Name::new("NOT_AN_ITEM")),
            _ => Value::from(7),
        },
        Type::NonNull(_) => unreachable!(),
    }
}

/// Build the value the resolver at `path` returns for declared type `ty`.
/// `Err(())` = the resolver fails.
fn build_value<'a>(ir: &Ir, wd: &Wd, path: &str, ty: &Type, top: bool, enc: Encoding) -> Result<Option<FieldValue<'a>>, ()> {
    // `<path>@<event>` overrides `<path>` while that subscription event is being resolved (see s1::Wd::event)
    let ev = wd.event.load(std::sync::atomic::Ordering::SeqCst);
    let ans = wd.table.get(&format!("{path}@{ev}")).or_else(|| wd.table.get(path)).cloned().unwrap_or_else(|| TableWorld::default_for(ir, ty));
    match ans {
        Ans::Err => {
            if top {
                Err(())
            } else {
                Ok(Some(FieldValue::value(Value::Null)))
            }
        }
        Ans::Null => Ok(if top { None } else { Some(FieldValue::value(Value::Null)) }),
        Ans::List(n) => {
            let item_ty = match ty.nullable() {
                Type::List(i) => (**i).clone(),
                _ => return Ok(Some(FieldValue::value(Value::from(7)))),
            };
            let leaf_items = ir.is_leaf(item_ty.base()) && !matches!(item_ty.nullable(), Type::List(_));
            if enc.list_as_value && leaf_items {
                let mut vs = Vec::new();
                for i in 0..n {
                    let p = format!("{path}.{i}");
                    let a = wd.table.get(&p).cloned().unwrap_or_else(|| TableWorld::default_for(ir, &item_ty));
                    vs.push(leaf_value(ir, &item_ty, &a, enc));
                }
                return Ok(Some(FieldValue::value(Value::List(vs))));
            }
            let mut items = Vec::new();
            for i in 0..n {
                let p = format!("{path}.{i}");
                items.push(build_value(ir, wd, &p, &item_ty, false, enc)?.unwrap_or_else(|| FieldValue::value(Value::Null)));
            }
            Ok(Some(FieldValue::list(items)))
        }
        Ans::Obj(t) => Ok(Some(FieldValue::owned_any(ObjMarker).with_type(t))),
        Ans::WrongKind => Ok(Some(FieldValue::value(wrong_kind_value(ir, ty)))),
        leaf => Ok(Some(FieldValue::value(leaf_value(ir, ty, &leaf, enc)))),
    }
}

fn make_field(ir: Arc<Ir>, owner: &str, fd: &agv_refgql::schema::FieldT, enc: Encoding, meta: &Meta) -> Field {
    let (name, ty, args) = (fd.name.as_str(), &fd.ty, fd.args.as_slice());
    let ty2 = ty.clone();
    let mut f = Field::new(name.to_string(), type_ref(ty), move |ctx| {
        let ir = ir.clone();
        let ty = ty2.clone();
        FieldFuture::new(async move {
            let wd = ctx.data_unchecked::<W>().clone();
            let path = ctx.ctx.path_node.map(|p| p.to_string()).unwrap_or_default();
            wd.log(format!("S:{path}"));
            if let Some(h) = &wd.gates {
                h.gate(path.clone()).await;
            }
            let r = build_value(&ir, &wd, &path, &ty, true, enc);
            wd.log(format!("F:{path}"));
            match r {
                Ok(v) => Ok(v),
                Err(()) => Err(async_graphql::Error::new("boom")),
            }
        })
    });
    let path = format!("{owner}.{name}");
    for a in args {
        f = f.argument(make_input_value(a, &format!("{path}.{}", a.name), meta));
    }
    if meta.describe {
        if let Some(d) = &fd.desc {
            f = f.description(d.clone());
        }
        if let Some(r) = &fd.deprecated {
            f = f.deprecation(r.as_deref());
        }
    }
    for d in meta.directives(&path) {
        f = f.directive(d);
    }
    f
}

/// Build the dynamic twin of `ir`. Custom scalars get an always-true validator
/// unless named `Even` (accepts even integers only — a validated custom scalar).
pub fn build(ir: &Ir, enc: Encoding) -> Result<Schema, String> {
    build_with(ir, enc, |b| b)
}

pub fn build_with(ir: &Ir, enc: Encoding, cfg: impl FnOnce(SchemaBuilder) -> SchemaBuilder) -> Result<Schema, String> {
    build_meta(ir, enc, &Meta::default(), cfg)
}

/// `build_with` plus descriptive metadata (descriptions, deprecations, `specifiedBy`, applied directives).
pub fn build_meta(ir: &Ir, enc: Encoding, meta: &Meta, cfg: impl FnOnce(SchemaBuilder) -> SchemaBuilder) -> Result<Schema, String> {
    let irc = Arc::new(ir.clone());
    let mut b = Schema::build(&ir.query, ir.mutation.as_deref(), ir.subscription.as_deref());
    for (name, t) in &ir.types {
        if agv_refgql::schema::BUILTIN_SCALARS.contains(&name.as_str()) {
            continue;
        }
        match &t.kind {
            Kind::Scalar => {
                let mut s = Scalar::new(name.clone());
                if name == "Even" {
                    s = s.validator(|v| *v == Value::Null || matches!(v, Value::Number(n) if n.as_i64().map(|i| i % 2 == 0).unwrap_or(false)));
                }
                if let Some(u) = meta.specified_by.get(name) {
                    s = s.specified_by_url(u.clone());
                }
                if let (true, Some(d)) = (meta.describe, &t.desc) {
                    s = s.description(d.clone());
                }
                for d in meta.directives(name) {
                    s = s.directive(d);
                }
                b = b.register(s);
            }
            Kind::Object { interfaces, fields } => {
                if Some(name) == ir.subscription.as_ref() {
                    let mut s = Subscription::new(name.clone());
                    for f in fields {
                        let irc2 = irc.clone();
                        let fname = f.name.clone();
                        let fty = f.ty.clone();
                        let mut sf = SubscriptionField::new(f.name.clone(), type_ref(&f.ty), move |ctx| {
                            let ir = irc2.clone();
                            let fname = fname.clone();
                            let fty = fty.clone();
                            SubscriptionFieldFuture::new(async move {
                                let wd = ctx.data_unchecked::<W>().clone();
                                wd.log(format!("S:{fname}"));
                                // like S1's event_stream: event i is released by the gate `<field>@<i>` when a scheduler is present
                                Ok(stream::unfold(0usize, move |i| {
                                    let (ir, wd, fname, fty) = (ir.clone(), wd.clone(), fname.clone(), fty.clone());
                                    async move {
                                        if i >= wd.events {
                                            return None;
                                        }
                                        if let Some(h) = &wd.gates {
                                            h.gate(format!("{fname}@{i}")).await;
                                        }
                                        wd.log(format!("E:{fname}@{i}"));
                                        wd.event.store(i, std::sync::atomic::Ordering::SeqCst);
                                        let item: Result<FieldValue, async_graphql::Error> = match build_value(&ir, &wd, &fname, &fty, true, enc) {
                                            Ok(Some(v)) => Ok(v),
                                            Ok(None) => Ok(FieldValue::value(Value::Null)),
                                            Err(()) => Err(async_graphql::Error::new("boom")),
                                        };
                                        Some((item, i + 1))
                                    }
                                }))
                            })
                        });
                        for a in &f.args {
                            sf = sf.argument(make_input_value(a, &format!("{name}.{}.{}", f.name, a.name), meta));
                        }
                        if meta.describe {
                            if let Some(d) = &f.desc {
                                sf = sf.description(d.clone());
                            }
                            if let Some(r) = &f.deprecated {
                                sf = sf.deprecation(r.as_deref());
                            }
                        }
                        s = s.field(sf);
                    }
                    if let (true, Some(d)) = (meta.describe, &t.desc) {
                        s = s.description(d.clone());
                    }
                    b = b.register(s);
                    continue;
                }
                let mut o = Object::new(name.clone());
                for i in interfaces {
                    o = o.implement(i.clone());
                }
                for f in fields {
                    o = o.field(make_field(irc.clone(), name, f, enc, meta));
                }
                if let (true, Some(d)) = (meta.describe, &t.desc) {
                    o = o.description(d.clone());
                }
                for d in meta.directives(name) {
                    o = o.directive(d);
                }
                b = b.register(o);
            }
            Kind::Interface { interfaces, fields } => {
                let mut i = Interface::new(name.clone());
                for p in interfaces {
                    i = i.implement(p.clone());
                }
                for f in fields {
                    let mut fi = InterfaceField::new(f.name.clone(), type_ref(&f.ty));
                    let fpath = format!("{name}.{}", f.name);
                    for a in &f.args {
                        fi = fi.argument(make_input_value(a, &format!("{fpath}.{}", a.name), meta));
                    }
                    if meta.describe {
                        if let Some(d) = &f.desc {
                            fi = fi.description(d.clone());
                        }
                        if let Some(r) = &f.deprecated {
                            fi = fi.deprecation(r.as_deref());
                        }
                    }
                    for d in meta.directives(&fpath) {
                        fi = fi.directive(d);
                    }
                    i = i.field(fi);
                }
                if let (true, Some(d)) = (meta.describe, &t.desc) {
                    i = i.description(d.clone());
                }
                for d in meta.directives(name) {
                    i = i.directive(d);
                }
                b = b.register(i);
            }
            Kind::Union { members } => {
                let mut u = Union::new(name.clone());
                for m in members {
                    u = u.possible_type(m.clone());
                }
                if let (true, Some(d)) = (meta.describe, &t.desc) {
                    u = u.description(d.clone());
                }
                for d in meta.directives(name) {
                    u = u.directive(d);
                }
                b = b.register(u);
            }
            Kind::Enum { values } => {
                let mut e = Enum::new(name.clone());
                for (v, vdesc, vdep) in values {
                    let mut item = EnumItem::new(v.clone());
                    if meta.describe {
                        if let Some(d) = vdesc {
                            item = item.description(d.clone());
                        }
                        if let Some(r) = vdep {
                            item = item.deprecation(r.as_deref());
                        }
                    }
                    for d in meta.directives(&format!("{name}.{v}")) {
                        item = item.directive(d);
                    }
                    e = e.item(item);
                }
                if let (true, Some(d)) = (meta.describe, &t.desc) {
                    e = e.description(d.clone());
                }
                for d in meta.directives(name) {
                    e = e.directive(d);
                }
                b = b.register(e);
            }
            Kind::Input { fields, one_of } => {
                let mut io = InputObject::new(name.clone());
                for a in fields {
                    io = io.field(make_input_value(a, &format!("{name}.{}", a.name), meta));
                }
                if *one_of {
                    io = io.oneof();
                }
                if let (true, Some(d)) = (meta.describe, &t.desc) {
                    io = io.description(d.clone());
                }
                for d in meta.directives(name) {
                    io = io.directive(d);
                }
                b = b.register(io);
            }
        }
    }
    cfg(b).finish().map_err(|e| format!("{e:?}"))
}

/// Execute one request on a dynamic schema with a world (all resolvers ready).
pub fn run_dynamic(schema: &Schema, query: &str, op: Option<&str>, vars: &serde_json::Map<String, serde_json::Value>, wd: W) -> Result<async_graphql::Response, String> {
    let mut req = async_graphql::Request::new(query).variables(async_graphql::Variables::from_json(serde_json::Value::Object(vars.clone()))).data(wd);
    if let Some(o) = op {
        req = req.operation_name(o);
    }
    agv_engine::sched::drive(schema.execute(req)).ok_or_else(|| "dynamic execute future parked without a waker".to_string())
}

pub fn run_dynamic_stream(schema: &Schema, query: &str, vars: &serde_json::Map<String, serde_json::Value>, wd: W) -> Result<Vec<async_graphql::Response>, String> {
    use futures_util::StreamExt;
    let req = async_graphql::Request::new(query).variables(async_graphql::Variables::from_json(serde_json::Value::Object(vars.clone()))).data(wd);
    agv_engine::sched::drive(schema.execute_stream(req).collect::<Vec<_>>()).ok_or_else(|| "dynamic execute_stream parked without a waker".to_string())
}

/// World filter for dynamic schemas: the dynamic API cannot express a null *item* of an object
/// type (every `FieldValue`, including `FieldValue::NULL`, is accepted as an object's parent value),
/// so such answers are not offered.
pub fn world_filter(ir: &Ir) -> impl Fn(&[agv_refgql::exec::Seg], &Type, bool, &Ans) -> bool + Sync + '_ {
    move |_path, ty, is_item, ans| !(is_item && *ans == Ans::Null && ir.is_object(ty.base()) && matches!(ty.nullable(), Type::Named(_)))
}
