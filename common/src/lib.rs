//! Shared harness code: schemas, worlds, glue to the reference model.
pub mod casecheck;
pub mod dynamic;
pub mod gen;
pub mod glue;
pub mod s1;

use agv_engine::sched::drive;
use async_graphql::{Request, Response, Variables};
use serde_json::{Map, Value as J};

/// Execute one request on S1 with a world; all resolvers are ready, so the
/// future must complete without parking (else `Err`).
pub fn run_s1(schema: &s1::S1, query: &str, op: Option<&str>, vars: &Map<String, J>, wd: s1::W) -> Result<Response, String> {
    let mut req = Request::new(query).variables(Variables::from_json(J::Object(vars.clone()))).data(wd);
    if let Some(o) = op {
        req = req.operation_name(o);
    }
    drive(schema.execute(req)).ok_or_else(|| "execute future parked without a waker".to_string())
}

/// Execute a (subscription) request on S1 and collect every response of the stream.
pub fn run_s1_stream(schema: &s1::S1, query: &str, op: Option<&str>, vars: &Map<String, J>, wd: s1::W) -> Result<Vec<Response>, String> {
    use futures_util::StreamExt;
    let mut req = Request::new(query).variables(Variables::from_json(J::Object(vars.clone()))).data(wd);
    if let Some(o) = op {
        req = req.operation_name(o);
    }
    drive(schema.execute_stream(req).collect::<Vec<_>>()).ok_or_else(|| "execute_stream parked without a waker".to_string())
}
