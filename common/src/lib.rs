//! Shared harness code: schemas, worlds, glue to the reference model.
