//! S1 "shapes": the derive-built harness schema with data-driven resolvers.
//!
//! Every resolver looks up what it returns in a world table (response path →
//! answer) carried in request data, logs `S:<path>` / `F:<path>`, and — when a
//! scheduler handle is present — awaits the gate named after its path first.
//! `SDL` is the hand-written description the reference model uses; `check_sdl`
//! asserts that it and `Schema::sdl()` describe the same types.

use agv_engine::sched::Handle;
use agv_refgql::exec::Ans;
use async_graphql::*;
use futures_util::stream::{self, Stream};
use std::collections::BTreeMap;
use std::sync::{Arc, Mutex};

pub const SDL: &str = r#"
type Query {
  a: Int!  n: Int  n2: Int  f: Float  fnn: Float!  s: String  e: E  enn: E!  g: Int  gnn: Int!  arg(x: Int! = 5): Int
  o: A  onn: A!  i: I  inn: I!  u: U  unn: U!  j: J
  l: [A!]!  ln: [A]  lnn: [A]!  lo: [A!]  li: [Int]  lin: [Int!]  ll: [[Int]]  lu: [U!]  lI: [I]
}
interface I { a: Int!  n: Int  o: A }
interface J { a: Int! }
type A implements I { a: Int!  n: Int  n2: Int  g: Int  gnn: Int!  o: A  onn: A!  i: I  u: U  l: [A!]!  ln: [A]  li: [Int]  pa: Int  f: Float  arg(x: Int! = 5): Int }
type B implements I & J { a: Int!  n: Int  o: A  u: U  pb: Int }
type C implements J { a: Int!  pc: Int }
union U = A | B | C
enum E { X Y }
type Mutation { inc: Int!  m: A  mn: Int  minn: Int! }
type Subscription { ev: A  evn: Int  evnn: Int!  evonn: A! }
"#;

/// Per-request world + observation log.
#[derive(Default)]
pub struct Wd {
    pub table: BTreeMap<String, Ans>,
    pub log: Mutex<Vec<String>>,
    /// when set, every resolver awaits `gate(path)` before answering
    pub gates: Option<Handle>,
    /// number of events each subscription field yields (default 1)
    pub events: usize,
    /// when true, every resolver records the look-ahead / selection views it is given
    pub record_views: bool,
    pub views: Mutex<Vec<View>>,
    /// (response path, field name) of every resolver start
    pub names: Mutex<Vec<(String, String)>>,
    /// index of the subscription event currently being resolved (single-root subscriptions);
    /// a table key `<path>@<event>` overrides `<path>` for that event only
    pub event: std::sync::atomic::AtomicUsize,
}

/// What a resolver saw through `ctx.field().selection_set()` and `ctx.look_ahead()`.
#[derive(Clone, Debug)]
pub struct View {
    pub path: String,
    /// (name, alias, arguments as JSON) of every direct sub-field listed by `selection_set()`
    pub selection: Vec<(String, Option<String>, String)>,
    /// candidate names for which `look_ahead().field(name).exists()`
    pub look_ahead: Vec<String>,
    /// names of `look_ahead().selection_fields()[..].selection_set()` (the look-ahead's own listing)
    pub look_ahead_listing: Vec<String>,
}

pub const ALL_FIELD_NAMES: &[&str] = &["a", "n", "n2", "f", "fnn", "s", "e", "enn", "g", "gnn", "arg", "o", "onn", "i", "inn", "u", "unn", "j", "l", "ln", "lnn", "lo", "li", "lin", "ll", "lu", "lI", "pa", "pb", "pc"];
impl Wd {
    pub fn new(table: BTreeMap<String, Ans>) -> Wd {
        Wd { table, log: Mutex::new(Vec::new()), gates: None, events: 1, record_views: false, views: Mutex::new(Vec::new()), names: Mutex::new(Vec::new()), event: std::sync::atomic::AtomicUsize::new(0) }
    }
    pub fn log(&self, s: String) {
        self.log.lock().unwrap().push(s);
    }
    pub fn take_log(&self) -> Vec<String> {
        std::mem::take(&mut self.log.lock().unwrap())
    }
    pub fn get(&self, path: &str) -> Option<&Ans> {
        self.table.get(path)
    }
}
pub type W = Arc<Wd>;

pub struct Got {
    pub path: String,
    pub ans: Option<Ans>,
    pub wd: W,
}

pub async fn enter(ctx: &Context<'_>) -> Got {
    let wd = ctx.data_unchecked::<W>().clone();
    let path = ctx.path_node.map(|p| p.to_string()).unwrap_or_default();
    wd.log(format!("S:{path}"));
    if wd.record_views {
        let f = ctx.field();
        wd.names.lock().unwrap().push((path.clone(), f.name().to_string()));
        let selection = f
            .selection_set()
            .map(|c| {
                let args = c.arguments().map(|a| serde_json::to_string(&a.iter().map(|(k, v)| (k.to_string(), v.clone().into_json().unwrap_or_default())).collect::<Vec<_>>()).unwrap_or_default()).unwrap_or_else(|e| format!("<error {}>", e.message));
                (c.name().to_string(), c.alias().map(|x| x.to_string()), args)
            })
            .collect();
        let la = ctx.look_ahead();
        let look_ahead = ALL_FIELD_NAMES.iter().filter(|n| la.field(n).exists()).map(|n| n.to_string()).collect();
        let look_ahead_listing = la.selection_fields().iter().flat_map(|sf| sf.selection_set().map(|c| c.name().to_string()).collect::<Vec<_>>()).collect();
        wd.views.lock().unwrap().push(View { path: path.clone(), selection, look_ahead, look_ahead_listing });
    }
    if let Some(h) = &wd.gates {
        h.gate(path.clone()).await;
    }
    let ev = wd.event.load(std::sync::atomic::Ordering::SeqCst);
    let ans = wd.table.get(&format!("{path}@{ev}")).or_else(|| wd.table.get(&path)).cloned();
    wd.log(format!("F:{path}"));
    Got { path, ans, wd }
}

fn boom() -> Error {
    Error::new("boom")
}

impl Got {
    pub fn int_nn(&self) -> Result<i32> {
        match &self.ans {
            Some(Ans::Err) => Err(boom()),
            Some(Ans::Int(i)) => Ok(*i as i32),
            _ => Ok(1),
        }
    }
    pub fn int_opt(&self) -> Result<Option<i32>> {
        match &self.ans {
            Some(Ans::Err) => Err(boom()),
            Some(Ans::Null) => Ok(None),
            Some(Ans::Int(i)) => Ok(Some(*i as i32)),
            _ => Ok(Some(1)),
        }
    }
    /// the other Rust spelling of a fallible nullable field
    pub fn int_opt2(&self) -> Option<Result<i32>> {
        match &self.ans {
            Some(Ans::Err) => Some(Err(boom())),
            Some(Ans::Null) => None,
            Some(Ans::Int(i)) => Some(Ok(*i as i32)),
            _ => Some(Ok(1)),
        }
    }
    pub fn float_opt(&self) -> Result<Option<f64>> {
        match &self.ans {
            Some(Ans::Err) => Err(boom()),
            Some(Ans::Null) => Ok(None),
            Some(Ans::Float(f)) => Ok(Some(*f)),
            _ => Ok(Some(1.5)),
        }
    }
    pub fn float_nn(&self) -> Result<f64> {
        match &self.ans {
            Some(Ans::Err) => Err(boom()),
            Some(Ans::Float(f)) => Ok(*f),
            _ => Ok(1.5),
        }
    }
    pub fn str_opt(&self) -> Result<Option<String>> {
        match &self.ans {
            Some(Ans::Err) => Err(boom()),
            Some(Ans::Null) => Ok(None),
            Some(Ans::Str(s)) => Ok(Some(s.clone())),
            _ => Ok(Some("x".into())),
        }
    }
    fn en(e: &str) -> E {
        if e == "Y" {
            E::Y
        } else {
            E::X
        }
    }
    pub fn enum_opt(&self) -> Result<Option<E>> {
        match &self.ans {
            Some(Ans::Err) => Err(boom()),
            Some(Ans::Null) => Ok(None),
            Some(Ans::Enum(e)) => Ok(Some(Self::en(e))),
            _ => Ok(Some(E::X)),
        }
    }
    pub fn enum_nn(&self) -> Result<E> {
        match &self.ans {
            Some(Ans::Err) => Err(boom()),
            Some(Ans::Enum(e)) => Ok(Self::en(e)),
            _ => Ok(E::X),
        }
    }
    pub fn obj_opt(&self) -> Result<Option<A>> {
        match &self.ans {
            Some(Ans::Err) => Err(boom()),
            Some(Ans::Null) => Ok(None),
            _ => Ok(Some(A)),
        }
    }
    pub fn obj_nn(&self) -> Result<A> {
        match &self.ans {
            Some(Ans::Err) => Err(boom()),
            _ => Ok(A),
        }
    }
    fn mk_i(t: Option<&str>) -> I {
        match t {
            Some("B") => I::B(B),
            _ => I::A(A),
        }
    }
    fn mk_u(t: Option<&str>) -> U {
        match t {
            Some("B") => U::B(B),
            Some("C") => U::C(C),
            _ => U::A(A),
        }
    }
    fn mk_j(t: Option<&str>) -> J {
        match t {
            Some("C") => J::C(C),
            _ => J::B(B),
        }
    }
    fn tn(a: &Option<Ans>) -> Option<&str> {
        match a {
            Some(Ans::Obj(t)) => Some(t.as_str()),
            _ => None,
        }
    }
    pub fn i_opt(&self) -> Result<Option<I>> {
        match &self.ans {
            Some(Ans::Err) => Err(boom()),
            Some(Ans::Null) => Ok(None),
            a => Ok(Some(Self::mk_i(Self::tn(a)))),
        }
    }
    pub fn i_nn(&self) -> Result<I> {
        match &self.ans {
            Some(Ans::Err) => Err(boom()),
            a => Ok(Self::mk_i(Self::tn(a))),
        }
    }
    pub fn u_opt(&self) -> Result<Option<U>> {
        match &self.ans {
            Some(Ans::Err) => Err(boom()),
            Some(Ans::Null) => Ok(None),
            a => Ok(Some(Self::mk_u(Self::tn(a)))),
        }
    }
    pub fn u_nn(&self) -> Result<U> {
        match &self.ans {
            Some(Ans::Err) => Err(boom()),
            a => Ok(Self::mk_u(Self::tn(a))),
        }
    }
    pub fn j_opt(&self) -> Result<Option<J>> {
        match &self.ans {
            Some(Ans::Err) => Err(boom()),
            Some(Ans::Null) => Ok(None),
            a => Ok(Some(Self::mk_j(Self::tn(a)))),
        }
    }
    fn len(&self) -> usize {
        match &self.ans {
            Some(Ans::List(n)) => *n,
            _ => 1,
        }
    }
    fn item(&self, i: usize) -> Option<Ans> {
        self.wd.table.get(&format!("{}.{}", self.path, i)).cloned()
    }
    /// [T!]! with a constructor per item answer
    pub fn list_nn<T>(&self, mk: impl Fn(&Option<Ans>) -> T) -> Result<Vec<T>> {
        match &self.ans {
            Some(Ans::Err) => Err(boom()),
            _ => Ok((0..self.len()).map(|i| mk(&self.item(i))).collect()),
        }
    }
    /// [T!] (nullable list of non-null)
    pub fn list_opt_nn<T>(&self, mk: impl Fn(&Option<Ans>) -> T) -> Result<Option<Vec<T>>> {
        match &self.ans {
            Some(Ans::Err) => Err(boom()),
            Some(Ans::Null) => Ok(None),
            _ => Ok(Some((0..self.len()).map(|i| mk(&self.item(i))).collect())),
        }
    }
    /// [T] (nullable list of nullable)
    pub fn list_opt_opt<T>(&self, mk: impl Fn(&Option<Ans>) -> T) -> Result<Option<Vec<Option<T>>>> {
        match &self.ans {
            Some(Ans::Err) => Err(boom()),
            Some(Ans::Null) => Ok(None),
            _ => Ok(Some(
                (0..self.len())
                    .map(|i| {
                        let a = self.item(i);
                        if a == Some(Ans::Null) {
                            None
                        } else {
                            Some(mk(&a))
                        }
                    })
                    .collect(),
            )),
        }
    }
    /// [T]! (non-null list of nullable)
    pub fn list_nn_opt<T>(&self, mk: impl Fn(&Option<Ans>) -> T) -> Result<Vec<Option<T>>> {
        match &self.ans {
            Some(Ans::Err) => Err(boom()),
            _ => Ok((0..self.len())
                .map(|i| {
                    let a = self.item(i);
                    if a == Some(Ans::Null) {
                        None
                    } else {
                        Some(mk(&a))
                    }
                })
                .collect()),
        }
    }
    /// [[Int]]
    pub fn list_list_int(&self) -> Result<Option<Vec<Option<Vec<Option<i32>>>>>> {
        match &self.ans {
            Some(Ans::Err) => Err(boom()),
            Some(Ans::Null) => Ok(None),
            _ => Ok(Some(
                (0..self.len())
                    .map(|i| match self.item(i) {
                        Some(Ans::Null) => None,
                        a => {
                            let n = if let Some(Ans::List(n)) = a { n } else { 1 };
                            Some(
                                (0..n)
                                    .map(|k| match self.wd.table.get(&format!("{}.{}.{}", self.path, i, k)) {
                                        Some(Ans::Null) => None,
                                        Some(Ans::Int(v)) => Some(*v as i32),
                                        _ => Some(1),
                                    })
                                    .collect(),
                            )
                        }
                    })
                    .collect(),
            )),
        }
    }
}

fn mk_a(_: &Option<Ans>) -> A {
    A
}
fn mk_int(a: &Option<Ans>) -> i32 {
    match a {
        Some(Ans::Int(i)) => *i as i32,
        _ => 1,
    }
}
fn mk_u_item(a: &Option<Ans>) -> U {
    Got::mk_u(Got::tn(a))
}
fn mk_i_item(a: &Option<Ans>) -> I {
    Got::mk_i(Got::tn(a))
}

/// Guard whose verdict comes from the world: `Ans::Err` at the field's path = rejected.
pub struct WG;
impl Guard for WG {
    async fn check(&self, ctx: &Context<'_>) -> Result<()> {
        let wd = ctx.data_unchecked::<W>();
        let path = ctx.path_node.map(|p| p.to_string()).unwrap_or_default();
        if wd.table.get(&path) == Some(&Ans::Err) {
            Err(Error::new("guard rejects"))
        } else {
            Ok(())
        }
    }
}

#[derive(Enum, Copy, Clone, Eq, PartialEq, Debug)]
pub enum E {
    X,
    Y,
}

pub struct A;
pub struct B;
pub struct C;

#[derive(Interface)]
#[graphql(field(name = "a", ty = "i32"), field(name = "n", ty = "Option<i32>"), field(name = "o", ty = "Option<A>"))]
pub enum I {
    A(A),
    B(B),
}

#[derive(Interface)]
#[graphql(field(name = "a", ty = "i32"))]
pub enum J {
    B(B),
    C(C),
}

#[derive(Union)]
pub enum U {
    A(A),
    B(B),
    C(C),
}

#[Object]
impl A {
    async fn a(&self, ctx: &Context<'_>) -> Result<i32> {
        enter(ctx).await.int_nn()
    }
    async fn n(&self, ctx: &Context<'_>) -> Result<Option<i32>> {
        enter(ctx).await.int_opt()
    }
    async fn n2(&self, ctx: &Context<'_>) -> Option<Result<i32>> {
        enter(ctx).await.int_opt2()
    }
    #[graphql(guard = "WG")]
    async fn g(&self, ctx: &Context<'_>) -> Option<i32> {
        let g = enter(ctx).await;
        match g.ans {
            Some(Ans::Null) => None,
            Some(Ans::Int(i)) => Some(i as i32),
            _ => Some(1),
        }
    }
    #[graphql(guard = "WG")]
    async fn gnn(&self, ctx: &Context<'_>) -> i32 {
        mk_int(&enter(ctx).await.ans)
    }
    async fn o(&self, ctx: &Context<'_>) -> Result<Option<A>> {
        enter(ctx).await.obj_opt()
    }
    async fn onn(&self, ctx: &Context<'_>) -> Result<A> {
        enter(ctx).await.obj_nn()
    }
    async fn i(&self, ctx: &Context<'_>) -> Result<Option<I>> {
        enter(ctx).await.i_opt()
    }
    async fn u(&self, ctx: &Context<'_>) -> Result<Option<U>> {
        enter(ctx).await.u_opt()
    }
    async fn l(&self, ctx: &Context<'_>) -> Result<Vec<A>> {
        enter(ctx).await.list_nn(mk_a)
    }
    async fn ln(&self, ctx: &Context<'_>) -> Result<Option<Vec<Option<A>>>> {
        enter(ctx).await.list_opt_opt(mk_a)
    }
    async fn li(&self, ctx: &Context<'_>) -> Result<Option<Vec<Option<i32>>>> {
        enter(ctx).await.list_opt_opt(mk_int)
    }
    async fn pa(&self, ctx: &Context<'_>) -> Result<Option<i32>> {
        enter(ctx).await.int_opt()
    }
    async fn f(&self, ctx: &Context<'_>) -> Result<Option<f64>> {
        enter(ctx).await.float_opt()
    }
    /// echoes its argument
    async fn arg(&self, ctx: &Context<'_>, #[graphql(default = 5)] x: i32) -> Result<Option<i32>> {
        let g = enter(ctx).await;
        match g.ans {
            Some(Ans::Err) => Err(Error::new("boom")),
            Some(Ans::Null) => Ok(None),
            _ => Ok(Some(x)),
        }
    }
}

#[Object]
impl B {
    async fn a(&self, ctx: &Context<'_>) -> Result<i32> {
        enter(ctx).await.int_nn()
    }
    async fn n(&self, ctx: &Context<'_>) -> Result<Option<i32>> {
        enter(ctx).await.int_opt()
    }
    async fn o(&self, ctx: &Context<'_>) -> Result<Option<A>> {
        enter(ctx).await.obj_opt()
    }
    async fn u(&self, ctx: &Context<'_>) -> Result<Option<U>> {
        enter(ctx).await.u_opt()
    }
    async fn pb(&self, ctx: &Context<'_>) -> Result<Option<i32>> {
        enter(ctx).await.int_opt()
    }
}

#[Object]
impl C {
    async fn a(&self, ctx: &Context<'_>) -> Result<i32> {
        enter(ctx).await.int_nn()
    }
    async fn pc(&self, ctx: &Context<'_>) -> Result<Option<i32>> {
        enter(ctx).await.int_opt()
    }
}

pub struct Query;

#[Object]
impl Query {
    async fn a(&self, ctx: &Context<'_>) -> Result<i32> {
        enter(ctx).await.int_nn()
    }
    async fn n(&self, ctx: &Context<'_>) -> Result<Option<i32>> {
        enter(ctx).await.int_opt()
    }
    async fn n2(&self, ctx: &Context<'_>) -> Option<Result<i32>> {
        enter(ctx).await.int_opt2()
    }
    async fn f(&self, ctx: &Context<'_>) -> Result<Option<f64>> {
        enter(ctx).await.float_opt()
    }
    async fn fnn(&self, ctx: &Context<'_>) -> Result<f64> {
        enter(ctx).await.float_nn()
    }
    async fn s(&self, ctx: &Context<'_>) -> Result<Option<String>> {
        enter(ctx).await.str_opt()
    }
    async fn e(&self, ctx: &Context<'_>) -> Result<Option<E>> {
        enter(ctx).await.enum_opt()
    }
    async fn enn(&self, ctx: &Context<'_>) -> Result<E> {
        enter(ctx).await.enum_nn()
    }
    /// echoes its argument
    async fn arg(&self, ctx: &Context<'_>, #[graphql(default = 5)] x: i32) -> Result<Option<i32>> {
        let g = enter(ctx).await;
        match g.ans {
            Some(Ans::Err) => Err(Error::new("boom")),
            Some(Ans::Null) => Ok(None),
            _ => Ok(Some(x)),
        }
    }
    #[graphql(guard = "WG")]
    async fn g(&self, ctx: &Context<'_>) -> Option<i32> {
        let g = enter(ctx).await;
        match g.ans {
            Some(Ans::Null) => None,
            Some(Ans::Int(i)) => Some(i as i32),
            _ => Some(1),
        }
    }
    #[graphql(guard = "WG")]
    async fn gnn(&self, ctx: &Context<'_>) -> i32 {
        mk_int(&enter(ctx).await.ans)
    }
    async fn o(&self, ctx: &Context<'_>) -> Result<Option<A>> {
        enter(ctx).await.obj_opt()
    }
    async fn onn(&self, ctx: &Context<'_>) -> Result<A> {
        enter(ctx).await.obj_nn()
    }
    async fn i(&self, ctx: &Context<'_>) -> Result<Option<I>> {
        enter(ctx).await.i_opt()
    }
    async fn inn(&self, ctx: &Context<'_>) -> Result<I> {
        enter(ctx).await.i_nn()
    }
    async fn u(&self, ctx: &Context<'_>) -> Result<Option<U>> {
        enter(ctx).await.u_opt()
    }
    async fn unn(&self, ctx: &Context<'_>) -> Result<U> {
        enter(ctx).await.u_nn()
    }
    async fn j(&self, ctx: &Context<'_>) -> Result<Option<J>> {
        enter(ctx).await.j_opt()
    }
    async fn l(&self, ctx: &Context<'_>) -> Result<Vec<A>> {
        enter(ctx).await.list_nn(mk_a)
    }
    async fn ln(&self, ctx: &Context<'_>) -> Result<Option<Vec<Option<A>>>> {
        enter(ctx).await.list_opt_opt(mk_a)
    }
    async fn lnn(&self, ctx: &Context<'_>) -> Result<Vec<Option<A>>> {
        enter(ctx).await.list_nn_opt(mk_a)
    }
    async fn lo(&self, ctx: &Context<'_>) -> Result<Option<Vec<A>>> {
        enter(ctx).await.list_opt_nn(mk_a)
    }
    async fn li(&self, ctx: &Context<'_>) -> Result<Option<Vec<Option<i32>>>> {
        enter(ctx).await.list_opt_opt(mk_int)
    }
    async fn lin(&self, ctx: &Context<'_>) -> Result<Option<Vec<i32>>> {
        enter(ctx).await.list_opt_nn(mk_int)
    }
    async fn ll(&self, ctx: &Context<'_>) -> Result<Option<Vec<Option<Vec<Option<i32>>>>>> {
        enter(ctx).await.list_list_int()
    }
    async fn lu(&self, ctx: &Context<'_>) -> Result<Option<Vec<U>>> {
        enter(ctx).await.list_opt_nn(mk_u_item)
    }
    #[graphql(name = "lI")]
    async fn l_i(&self, ctx: &Context<'_>) -> Result<Option<Vec<Option<I>>>> {
        enter(ctx).await.list_opt_opt(mk_i_item)
    }
}

pub struct Mutation;

#[Object]
impl Mutation {
    async fn inc(&self, ctx: &Context<'_>) -> Result<i32> {
        enter(ctx).await.int_nn()
    }
    async fn m(&self, ctx: &Context<'_>) -> Result<Option<A>> {
        enter(ctx).await.obj_opt()
    }
    async fn mn(&self, ctx: &Context<'_>) -> Result<Option<i32>> {
        enter(ctx).await.int_opt()
    }
    async fn minn(&self, ctx: &Context<'_>) -> Result<i32> {
        enter(ctx).await.int_nn()
    }
}

pub struct Subscription;


/// `n` events; when a scheduler is present, event i is released by the gate `<key>@<i>`.
fn event_stream<T: Send + 'static>(wd: W, key: &'static str, mk: impl Fn(&Wd) -> T + Send + Sync + 'static) -> impl Stream<Item = T> {
    let mk = Arc::new(mk);
    stream::unfold(0usize, move |i| {
        let wd = wd.clone();
        let mk = mk.clone();
        async move {
            if i >= wd.events {
                return None;
            }
            if let Some(h) = &wd.gates {
                h.gate(format!("{key}@{i}")).await;
            }
            wd.log(format!("E:{key}@{i}"));
            wd.event.store(i, std::sync::atomic::Ordering::SeqCst);
            Some((mk(&wd), i + 1))
        }
    })
}

#[Subscription]
impl Subscription {
    async fn ev(&self, ctx: &Context<'_>) -> impl Stream<Item = Result<Option<A>>> {
        let wd = ctx.data_unchecked::<W>().clone();
        event_stream(wd, "ev", |wd| match wd.table.get("ev") {
            Some(Ans::Err) => Err(boom()),
            Some(Ans::Null) => Ok(None),
            _ => Ok(Some(A)),
        })
    }
    /// a non-null object payload: an event in which a non-null child fails nulls the whole data
    async fn evonn(&self, ctx: &Context<'_>) -> impl Stream<Item = Result<A>> {
        let wd = ctx.data_unchecked::<W>().clone();
        event_stream(wd, "evonn", |wd| match wd.table.get("evonn") {
            Some(Ans::Err) => Err(boom()),
            _ => Ok(A),
        })
    }
    async fn evn(&self, ctx: &Context<'_>) -> impl Stream<Item = Result<Option<i32>>> {
        let wd = ctx.data_unchecked::<W>().clone();
        event_stream(wd, "evn", |wd| match wd.table.get("evn") {
            Some(Ans::Err) => Err(boom()),
            Some(Ans::Null) => Ok(None),
            Some(Ans::Int(i)) => Ok(Some(*i as i32)),
            _ => Ok(Some(1)),
        })
    }
    async fn evnn(&self, ctx: &Context<'_>) -> impl Stream<Item = Result<i32>> {
        let wd = ctx.data_unchecked::<W>().clone();
        event_stream(wd, "evnn", |wd| match wd.table.get("evnn") {
            Some(Ans::Err) => Err(boom()),
            Some(Ans::Int(i)) => Ok(*i as i32),
            _ => Ok(1),
        })
    }
}

pub type S1 = Schema<Query, Mutation, Subscription>;

pub fn builder() -> SchemaBuilder<Query, Mutation, Subscription> {
    Schema::build(Query, Mutation, Subscription)
}
pub fn schema() -> S1 {
    builder().finish()
}
