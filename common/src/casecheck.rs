//! One generated case, executed by the reference and by the real static schema S1.

use crate::gen::{gen_doc, GenCfg};
use crate::glue::{obs_of, table_json, ChooserWorld, MenuCfg, Obs};
use crate::s1::{self, Wd};
use agv_engine::explore::{Chooser, Class};
use agv_refgql::ast::{ExecDoc, Type};
use agv_refgql::exec::{execute, Ans, ExecResult, Seg};
use agv_refgql::schema::Schema;
use serde_json::{json, Map, Value as J};
use std::collections::BTreeMap;
use std::sync::Arc;

pub struct Compared {
    pub text: String,
    pub doc: ExecDoc,
    pub vars: Map<String, J>,
    pub table: BTreeMap<String, Ans>,
    pub features: Vec<&'static str>,
    pub reference: ExecResult,
    pub obs: Obs,
    /// resolver log of the implementation run (`S:path` / `F:path`)
    pub log: Vec<String>,
    pub response: async_graphql::Response,
    /// for subscriptions: the observations of the 2nd, 3rd … event (`obs` is the first)
    pub more_events: Vec<Obs>,
}

impl Compared {
    pub fn case_json(&self) -> J {
        json!({"query": self.text, "variables": J::Object(self.vars.clone()), "world": table_json(&self.table)})
    }
    pub fn case_hash(&self) -> u64 {
        agv_engine::h64(&(&self.text, serde_json::to_string(&self.vars).unwrap(), format!("{:?}", self.table)))
    }
    pub fn expected_data_text(&self) -> String {
        self.reference.data.as_ref().map(|d| serde_json::to_string(d).unwrap()).unwrap_or_else(|| "<no data>".into())
    }
}

/// The implementation under test: the derive-built S1 or a dynamic schema.
pub enum Target<'a> {
    Static(&'a s1::S1),
    Dynamic(&'a async_graphql::dynamic::Schema),
}
impl<'a> Target<'a> {
    fn run(&self, text: &str, vars: &Map<String, J>, wd: s1::W) -> Result<async_graphql::Response, String> {
        match self {
            Target::Static(s) => crate::run_s1(s, text, None, vars, wd),
            Target::Dynamic(s) => crate::dynamic::run_dynamic(s, text, None, vars, wd),
        }
    }
    fn run_stream(&self, text: &str, vars: &Map<String, J>, wd: s1::W) -> Result<Vec<async_graphql::Response>, String> {
        match self {
            Target::Static(s) => crate::run_s1_stream(s, text, None, vars, wd),
            Target::Dynamic(s) => crate::dynamic::run_dynamic_stream(s, text, vars, wd),
        }
    }
}

pub enum CaseOutcome {
    NotDoc,
    Invalid,
    Machinery(String),
    Panic { msg: String, case: J },
    Ran(Box<Compared>),
}

pub type WorldFilter<'a> = &'a (dyn Fn(&[Seg], &Type, bool, &Ans) -> bool + Sync);

/// Generate (from `ch`) a document, keep it if the reference validator accepts it,
/// run the reference executor with a lazily chosen world, then the real schema on the same world.
pub fn run_static(refs: &Schema, target: &Target, gcfg: &GenCfg, ch: &mut Chooser, menu: MenuCfg, world_class: Class, filter: Option<WorldFilter>) -> CaseOutcome {
    run_static2(refs, target, gcfg, ch, menu, world_class, None, filter)
}

/// As `run_static`, with a separate deviation class for fault answers.
#[allow(clippy::too_many_arguments)]
pub fn run_static2(refs: &Schema, target: &Target, gcfg: &GenCfg, ch: &mut Chooser, menu: MenuCfg, world_class: Class, fault_class: Option<Class>, filter: Option<WorldFilter>) -> CaseOutcome {
    let Some(gd) = gen_doc(gcfg, ch) else { return CaseOutcome::NotDoc };
    let text = agv_refgql::print::exec_doc(&gd.doc);
    let doc = match agv_refgql::parse::parse_exec(&text) {
        Ok(d) => d,
        Err(e) => return CaseOutcome::Machinery(format!("generator printed an unparsable document {text:?}: {}", e.msg)),
    };
    if !agv_refgql::validate::validate(refs, &doc).is_empty() {
        return CaseOutcome::Invalid;
    }
    let mut world = ChooserWorld { s: refs, ch, cfg: menu, class: world_class, fault_class, table: Default::default(), asked: 0, filter };
    let reference = execute(refs, &doc, None, &gd.variables, &mut world);
    let table = world.table;
    run_fixed(refs, target, text, doc, gd.variables, table, gd.features, Some(reference))
}

/// Run a fully specified case (used by `run_static` and by replay).
#[allow(clippy::too_many_arguments)]
pub fn run_fixed(refs: &Schema, target: &Target, text: String, doc: ExecDoc, vars: Map<String, J>, table: BTreeMap<String, Ans>, features: Vec<&'static str>, reference: Option<ExecResult>) -> CaseOutcome {
    let reference = reference.unwrap_or_else(|| {
        let w = agv_refgql::exec::TableWorld { table: table.clone() };
        execute(refs, &doc, None, &vars, &mut agv_refgql::exec::TableWorldRef { s: refs, w: &w })
    });
    if reference.data.is_none() {
        return CaseOutcome::Machinery(format!("reference raised a request error on a validated document: {:?} for {text}", reference.request_error));
    }
    let mut wdv = Wd::new(table.clone());
    let is_sub = doc.ops().next().map(|o| o.kind == agv_refgql::ast::OpKind::Subscription).unwrap_or(false);
    wdv.events = 2;
    let wd = Arc::new(wdv);
    let panic_case = |vars: &Map<String, J>| json!({"query": text, "variables": J::Object(vars.clone()), "world": table_json(&table)});
    let (resp, more) = if is_sub {
        match agv_engine::catch_quiet(|| target.run_stream(&text, &vars, wd.clone())) {
            Ok(Ok(mut rs)) => {
                if rs.is_empty() {
                    return CaseOutcome::Machinery(format!("subscription stream produced no response: {text}"));
                }
                let first = rs.remove(0);
                (first, rs.iter().map(obs_of).collect::<Vec<_>>())
            }
            Ok(Err(e)) => return CaseOutcome::Machinery(format!("{e}: {text}")),
            Err(p) => return CaseOutcome::Panic { msg: p, case: panic_case(&vars) },
        }
    } else {
        match agv_engine::catch_quiet(|| target.run(&text, &vars, wd.clone())) {
            Ok(Ok(r)) => (r, vec![]),
            Ok(Err(e)) => return CaseOutcome::Machinery(format!("{e}: {text}")),
            Err(p) => return CaseOutcome::Panic { msg: p, case: panic_case(&vars) },
        }
    };
    let obs = obs_of(&resp);
    let log = wd.take_log();
    CaseOutcome::Ran(Box::new(Compared { text, doc, vars, table, features, reference, obs, log, response: resp, more_events: more }))
}

/// Replay helper: rebuild a case from the JSON stored in a violation.
pub fn replay_fixed(refs: &Schema, target: &Target, case: &J) -> CaseOutcome {
    let text = case["query"].as_str().unwrap_or("").to_string();
    let vars = case["variables"].as_object().cloned().unwrap_or_default();
    let table = crate::glue::table_from_json(&case["world"]);
    match agv_refgql::parse::parse_exec(&text) {
        Ok(doc) => run_fixed(refs, target, text, doc, vars, table, vec![], None),
        Err(e) => CaseOutcome::Machinery(format!("replay: document does not parse: {}", e.msg)),
    }
}

/// First structural difference between two JSON trees ("kind at /path"), key order included.
pub fn first_diff(exp: &J, got: &J, path: &str) -> Option<String> {
    match (exp, got) {
        (J::Object(a), J::Object(b)) => {
            let ka: Vec<&String> = a.keys().collect();
            let kb: Vec<&String> = b.keys().collect();
            for k in &ka {
                if !b.contains_key(*k) {
                    return Some(format!("missing-key at {path}/{k}"));
                }
            }
            for k in &kb {
                if !a.contains_key(*k) {
                    return Some(format!("extra-key at {path}/{k}"));
                }
            }
            if ka != kb {
                return Some(format!("key-order at {path}"));
            }
            for k in ka {
                if let Some(d) = first_diff(&a[k], &b[k], &format!("{path}/{k}")) {
                    return Some(d);
                }
            }
            None
        }
        (J::Array(a), J::Array(b)) => {
            if a.len() != b.len() {
                return Some(format!("list-length at {path}"));
            }
            for (i, (x, y)) in a.iter().zip(b).enumerate() {
                if let Some(d) = first_diff(x, y, &format!("{path}/{i}")) {
                    return Some(d);
                }
            }
            None
        }
        (x, y) if x == y => None,
        (J::Null, _) => Some(format!("expected-null at {path}")),
        (_, J::Null) => Some(format!("unexpected-null at {path}")),
        _ => Some(format!("value-differs at {path}")),
    }
}

/// (line, col) of every field node in the document whose response key is `key`.
pub fn key_positions(doc: &ExecDoc, key: &str) -> Vec<(u32, u32)> {
    use agv_refgql::ast::{ExecDef, Selection};
    fn walk(sel: &[Selection], key: &str, out: &mut Vec<(u32, u32)>) {
        for s in sel {
            match s {
                Selection::Field(f) => {
                    if f.key() == key {
                        out.push((f.pos.line, f.pos.col));
                    }
                    walk(&f.sel, key, out);
                }
                Selection::Inline(i) => walk(&i.sel, key, out),
                Selection::Spread(_) => {}
            }
        }
    }
    let mut out = Vec::new();
    for d in &doc.defs {
        match d {
            ExecDef::Op(o) => walk(&o.sel, key, &mut out),
            ExecDef::Frag(f) => walk(&f.sel, key, &mut out),
        }
    }
    out
}

/// The library resolves a response key once per field node that carries it (the C04
/// finding "merged-key-resolved-n-times"); a failing such field is then reported once per
/// node. Recognise exactly that shape: surplus reports that repeat an already reported
/// path, each with the location of another node of the same key. Returns the error paths
/// with those repeats removed, and how many were removed.
pub fn strip_repeated_key_duplicates(doc: &ExecDoc, obs: &Obs) -> (Vec<agv_refgql::exec::Path>, usize) {
    use agv_refgql::ast::Selection;
    // how many times a field node with this key is reached when every spread is expanded
    // every time it occurs (the library does not keep the spec's visitedFragments set either)
    fn occurrences(doc: &ExecDoc, sel: &[Selection], key: &str, depth: usize) -> usize {
        if depth > 8 {
            return 0;
        }
        let mut n = 0;
        for s in sel {
            match s {
                Selection::Field(f) => {
                    if f.key() == key {
                        n += 1;
                    }
                    n += occurrences(doc, &f.sel, key, depth + 1);
                }
                Selection::Inline(i) => n += occurrences(doc, &i.sel, key, depth + 1),
                Selection::Spread(sp) => {
                    if let Some(fr) = doc.frag(&sp.name.s) {
                        n += occurrences(doc, &fr.sel, key, depth + 1);
                    }
                }
            }
        }
        n
    }
    let mut kept: Vec<agv_refgql::exec::Path> = Vec::new();
    let mut dups = 0usize;
    for e in &obs.errors {
        let key = e.path.iter().rev().find_map(|s| if let Seg::Key(k) = s { Some(k.clone()) } else { None }).unwrap_or_default();
        let nodes: usize = doc.ops().map(|o| occurrences(doc, &o.sel, &key, 0)).sum();
        let same = obs.errors.iter().filter(|x| x.path == e.path).count();
        if kept.contains(&e.path) && nodes > 1 && same <= nodes {
            dups += 1;
            continue;
        }
        kept.push(e.path.clone());
    }
    (kept, dups)
}

/// How many times a field node with response key `key` is reached when every fragment spread is
/// expanded each time it occurs (> 1 means the key's value is assembled from several executions in
/// this library, see the C04 finding).
pub fn key_occurrences(doc: &ExecDoc, key: &str) -> usize {
    use agv_refgql::ast::Selection;
    fn occ(doc: &ExecDoc, sel: &[Selection], key: &str, depth: usize) -> usize {
        if depth > 8 {
            return 0;
        }
        let mut n = 0;
        for s in sel {
            match s {
                Selection::Field(f) => {
                    if f.key() == key {
                        n += 1;
                    }
                    n += occ(doc, &f.sel, key, depth + 1);
                }
                Selection::Inline(i) => n += occ(doc, &i.sel, key, depth + 1),
                Selection::Spread(sp) => {
                    if let Some(fr) = doc.frag(&sp.name.s) {
                        n += occ(doc, &fr.sel, key, depth + 1);
                    }
                }
            }
        }
        n
    }
    doc.ops().map(|o| occ(doc, &o.sel, key, 0)).sum()
}
