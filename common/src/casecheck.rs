//! One generated case, executed by the reference and by the real static schema S1.

use crate::gen::{gen_doc, GenCfg};
use crate::glue::{obs_of, table_json, ChooserWorld, MenuCfg, Obs};
use crate::s1::{self, Wd};
use agv_engine::explore::{Chooser, Class};
use agv_refgql::ast::{ExecDoc, Type};
use agv_refgql::exec::{execute, Ans, ExecResult, Seg};
use agv_refgql::schema::Schema;
use serde_json::{json, Map, Value as J};
use std::collections::BTreeMap;
use std::sync::Arc;

pub struct Compared {
    pub text: String,
    pub doc: ExecDoc,
    pub vars: Map<String, J>,
    pub table: BTreeMap<String, Ans>,
    pub features: Vec<&'static str>,
    pub reference: ExecResult,
    pub obs: Obs,
    /// resolver log of the implementation run (`S:path` / `F:path`)
    pub log: Vec<String>,
    pub response: async_graphql::Response,
    /// for subscriptions: the observations of the 2nd, 3rd … event (`obs` is the first)
    pub more_events: Vec<Obs>,
}

impl Compared {
    pub fn case_json(&self) -> J {
        json!({"query": self.text, "variables": J::Object(self.vars.clone()), "world": table_json(&self.table)})
    }
    pub fn case_hash(&self) -> u64 {
        agv_engine::h64(&(&self.text, serde_json::to_string(&self.vars).unwrap(), format!("{:?}", self.table)))
    }
    pub fn expected_data_text(&self) -> String {
        self.reference.data.as_ref().map(|d| serde_json::to_string(d).unwrap()).unwrap_or_else(|| "<no data>".into())
    }
}

pub enum CaseOutcome {
    NotDoc,
    Invalid,
    Machinery(String),
    Panic { msg: String, case: J },
    Ran(Box<Compared>),
}

pub type WorldFilter<'a> = &'a (dyn Fn(&[Seg], &Type, bool, &Ans) -> bool + Sync);

/// Generate (from `ch`) a document, keep it if the reference validator accepts it,
/// run the reference executor with a lazily chosen world, then the real schema on the same world.
pub fn run_static(refs: &Schema, schema: &s1::S1, gcfg: &GenCfg, ch: &mut Chooser, menu: MenuCfg, world_class: Class, filter: Option<WorldFilter>) -> CaseOutcome {
    run_static2(refs, schema, gcfg, ch, menu, world_class, None, filter)
}

/// As `run_static`, with a separate deviation class for fault answers.
#[allow(clippy::too_many_arguments)]
pub fn run_static2(refs: &Schema, schema: &s1::S1, gcfg: &GenCfg, ch: &mut Chooser, menu: MenuCfg, world_class: Class, fault_class: Option<Class>, filter: Option<WorldFilter>) -> CaseOutcome {
    let Some(gd) = gen_doc(gcfg, ch) else { return CaseOutcome::NotDoc };
    let text = agv_refgql::print::exec_doc(&gd.doc);
    let doc = match agv_refgql::parse::parse_exec(&text) {
        Ok(d) => d,
        Err(e) => return CaseOutcome::Machinery(format!("generator printed an unparsable document {text:?}: {}", e.msg)),
    };
    if !agv_refgql::validate::validate(refs, &doc).is_empty() {
        return CaseOutcome::Invalid;
    }
    let mut world = ChooserWorld { s: refs, ch, cfg: menu, class: world_class, fault_class, table: Default::default(), asked: 0, filter };
    let reference = execute(refs, &doc, None, &gd.variables, &mut world);
    let table = world.table;
    run_fixed(refs, schema, text, doc, gd.variables, table, gd.features, Some(reference))
}

/// Run a fully specified case (used by `run_static` and by replay).
#[allow(clippy::too_many_arguments)]
pub fn run_fixed(refs: &Schema, schema: &s1::S1, text: String, doc: ExecDoc, vars: Map<String, J>, table: BTreeMap<String, Ans>, features: Vec<&'static str>, reference: Option<ExecResult>) -> CaseOutcome {
    let reference = reference.unwrap_or_else(|| {
        let w = agv_refgql::exec::TableWorld { table: table.clone() };
        execute(refs, &doc, None, &vars, &mut agv_refgql::exec::TableWorldRef { s: refs, w: &w })
    });
    if reference.data.is_none() {
        return CaseOutcome::Machinery(format!("reference raised a request error on a validated document: {:?} for {text}", reference.request_error));
    }
    let mut wdv = Wd::new(table.clone());
    let is_sub = doc.ops().next().map(|o| o.kind == agv_refgql::ast::OpKind::Subscription).unwrap_or(false);
    wdv.events = 2;
    let wd = Arc::new(wdv);
    let panic_case = |vars: &Map<String, J>| json!({"query": text, "variables": J::Object(vars.clone()), "world": table_json(&table)});
    let (resp, more) = if is_sub {
        match agv_engine::catch_quiet(|| crate::run_s1_stream(schema, &text, None, &vars, wd.clone())) {
            Ok(Ok(mut rs)) => {
                if rs.is_empty() {
                    return CaseOutcome::Machinery(format!("subscription stream produced no response: {text}"));
                }
                let first = rs.remove(0);
                (first, rs.iter().map(obs_of).collect::<Vec<_>>())
            }
            Ok(Err(e)) => return CaseOutcome::Machinery(format!("{e}: {text}")),
            Err(p) => return CaseOutcome::Panic { msg: p, case: panic_case(&vars) },
        }
    } else {
        match agv_engine::catch_quiet(|| crate::run_s1(schema, &text, None, &vars, wd.clone())) {
            Ok(Ok(r)) => (r, vec![]),
            Ok(Err(e)) => return CaseOutcome::Machinery(format!("{e}: {text}")),
            Err(p) => return CaseOutcome::Panic { msg: p, case: panic_case(&vars) },
        }
    };
    let obs = obs_of(&resp);
    let log = wd.take_log();
    CaseOutcome::Ran(Box::new(Compared { text, doc, vars, table, features, reference, obs, log, response: resp, more_events: more }))
}

/// Replay helper: rebuild a case from the JSON stored in a violation.
pub fn replay_fixed(refs: &Schema, schema: &s1::S1, case: &J) -> CaseOutcome {
    let text = case["query"].as_str().unwrap_or("").to_string();
    let vars = case["variables"].as_object().cloned().unwrap_or_default();
    let table = crate::glue::table_from_json(&case["world"]);
    match agv_refgql::parse::parse_exec(&text) {
        Ok(doc) => run_fixed(refs, schema, text, doc, vars, table, vec![], None),
        Err(e) => CaseOutcome::Machinery(format!("replay: document does not parse: {}", e.msg)),
    }
}

/// First structural difference between two JSON trees ("kind at /path"), key order included.
pub fn first_diff(exp: &J, got: &J, path: &str) -> Option<String> {
    match (exp, got) {
        (J::Object(a), J::Object(b)) => {
            let ka: Vec<&String> = a.keys().collect();
            let kb: Vec<&String> = b.keys().collect();
            for k in &ka {
                if !b.contains_key(*k) {
                    return Some(format!("missing-key at {path}/{k}"));
                }
            }
            for k in &kb {
                if !a.contains_key(*k) {
                    return Some(format!("extra-key at {path}/{k}"));
                }
            }
            if ka != kb {
                return Some(format!("key-order at {path}"));
            }
            for k in ka {
                if let Some(d) = first_diff(&a[k], &b[k], &format!("{path}/{k}")) {
                    return Some(d);
                }
            }
            None
        }
        (J::Array(a), J::Array(b)) => {
            if a.len() != b.len() {
                return Some(format!("list-length at {path}"));
            }
            for (i, (x, y)) in a.iter().zip(b).enumerate() {
                if let Some(d) = first_diff(x, y, &format!("{path}/{i}")) {
                    return Some(d);
                }
            }
            None
        }
        (x, y) if x == y => None,
        (J::Null, _) => Some(format!("expected-null at {path}")),
        (_, J::Null) => Some(format!("unexpected-null at {path}")),
        _ => Some(format!("value-differs at {path}")),
    }
}
