//! Chooser-driven generator of executable documents over a schema: every
//! document with at most N selection nodes (fields, inline fragments, spreads
//! of ≤ 2 named fragments) — structure exhaustive, decorations (aliases,
//! @skip/@include forms) as bounded deviations. Documents are produced as
//! reference ASTs; validity is decided afterwards by the reference validator.

use agv_engine::explore::{Chooser, Class};
use agv_refgql::ast::*;
use agv_refgql::schema::Schema;
use serde_json::{Map, Value as J};

pub struct GenCfg<'a> {
    pub schema: &'a Schema,
    /// fields offered per parent type (composite name → field names); types not listed offer none
    pub fields: &'a [(&'a str, &'a [&'a str])],
    /// type conditions offered for fragments
    pub conds: &'a [&'a str],
    pub max_nodes: usize,
    pub max_depth: usize,
    pub named_fragments: usize,
    /// deviation class of decorations (alias / directive); None = no decorations
    pub deco: Option<Class>,
    pub typename: bool,
    pub op: OpKind,
    /// offer fragments (inline or spread) directly under the operation root
    pub root_fragments: bool,
}

pub struct GenDoc {
    pub doc: ExecDoc,
    pub variables: Map<String, J>,
    /// features used, for attribution of discrepancies
    pub features: Vec<&'static str>,
}

struct G<'a, 'c> {
    cfg: &'a GenCfg<'a>,
    ch: &'c mut Chooser,
    budget: usize,
    vars: Vec<VarDef>,
    given: Map<String, J>,
    features: Vec<&'static str>,
    /// fragments spread so far: (name, parent types at the spread sites)
    frags_used: Vec<String>,
}

fn pn(s: &str) -> PName {
    PName::new(s)
}

impl<'a, 'c> G<'a, 'c> {
    fn fields_of(&self, ty: &str) -> &'a [&'a str] {
        self.cfg.fields.iter().find(|(t, _)| *t == ty).map(|(_, f)| *f).unwrap_or(&[])
    }

    fn feature(&mut self, f: &'static str) {
        if !self.features.contains(&f) {
            self.features.push(f);
        }
    }

    /// one of the @skip/@include forms; index 0 = none
    fn directive(&mut self) -> Vec<Directive> {
        let Some(class) = self.cfg.deco else { return vec![] };
        const FORMS: usize = 13;
        let k = self.ch.pick(class, "directive", FORMS);
        if k == 0 {
            return vec![];
        }
        let lit = |name: &str, b: bool| Directive { name: pn(name), args: vec![(pn("if"), PValue::new(Value::Bool(b)))], pos: Pos::default() };
        let var = |g: &mut Self, name: &str, default: Option<bool>, given: Option<bool>, nn: bool| {
            let vn = format!("v{}", g.vars.len());
            let ty = if nn { Type::named("Boolean").nn() } else { Type::named("Boolean") };
            g.vars.push(VarDef { name: pn(&vn), ty, ty_pos: Pos::default(), default: default.map(|d| PValue::new(Value::Bool(d))), directives: vec![], pos: Pos::default() });
            if let Some(b) = given {
                g.given.insert(vn.clone(), J::Bool(b));
            }
            Directive { name: pn(name), args: vec![(pn("if"), PValue::new(Value::Var(vn)))], pos: Pos::default() }
        };
        match k {
            1 => vec![lit("skip", true)],
            2 => vec![lit("skip", false)],
            3 => vec![lit("include", true)],
            4 => vec![lit("include", false)],
            5 => {
                self.feature("directive-variable");
                vec![var(self, "skip", None, Some(true), true)]
            }
            6 => {
                self.feature("directive-variable");
                vec![var(self, "include", None, Some(false), true)]
            }
            7 => {
                self.feature("directive-variable-default");
                vec![var(self, "skip", Some(true), None, false)]
            }
            8 => {
                self.feature("directive-variable-default");
                vec![var(self, "include", Some(false), None, false)]
            }
            9 => {
                self.feature("directive-variable-default");
                vec![var(self, "include", Some(true), None, false)]
            }
            10 => {
                self.feature("directive-variable-default");
                vec![var(self, "skip", Some(false), Some(true), false)]
            }
            11 => vec![lit("skip", false), lit("include", false)],
            _ => vec![lit("skip", true), lit("include", true)],
        }
    }

    fn sel(&mut self, ty: &str, depth: usize) -> Vec<Selection> {
        let mut out: Vec<Selection> = Vec::new();
        loop {
            if self.budget == 0 {
                break;
            }
            // menu
            #[derive(Clone)]
            enum M {
                Stop,
                Field(String),
                Typename,
                Inline(Option<String>),
                Spread(usize),
            }
            let mut menu: Vec<M> = Vec::new();
            if !out.is_empty() {
                menu.push(M::Stop);
            }
            let can_nest = self.budget >= 2 && depth < self.cfg.max_depth;
            for f in self.fields_of(ty) {
                let composite = self.cfg.schema.field(ty, f).map(|fd| self.cfg.schema.is_composite(fd.ty.base())).unwrap_or(false);
                if !composite || can_nest {
                    menu.push(M::Field(f.to_string()));
                }
            }
            if self.cfg.typename {
                menu.push(M::Typename);
            }
            if can_nest && (depth > 0 || self.cfg.root_fragments) {
                menu.push(M::Inline(None));
                for c in self.cfg.conds {
                    menu.push(M::Inline(Some(c.to_string())));
                }
                for k in 0..self.cfg.named_fragments {
                    menu.push(M::Spread(k));
                }
            }
            if menu.is_empty() {
                break;
            }
            let k = self.ch.any("node", menu.len());
            match menu[k].clone() {
                M::Stop => break,
                M::Field(f) => {
                    self.budget -= 1;
                    let fd = self.cfg.schema.field(ty, &f).cloned();
                    let alias = match self.cfg.deco {
                        Some(class) => match self.ch.pick(class, "alias", 3) {
                            1 => Some(pn("k")),
                            2 => {
                                // collide with another field's natural key
                                let other = self.fields_of(ty).iter().find(|x| **x != f).copied().unwrap_or("k");
                                Some(pn(other))
                            }
                            _ => None,
                        },
                        None => None,
                    };
                    if alias.is_some() {
                        self.feature("alias");
                    }
                    let directives = self.directive();
                    let sub = match &fd {
                        Some(fd) if self.cfg.schema.is_composite(fd.ty.base()) => {
                            let base = fd.ty.base().to_string();
                            self.sel(&base, depth + 1)
                        }
                        _ => vec![],
                    };
                    out.push(Selection::Field(Field { alias, name: pn(&f), args: vec![], directives, sel: sub, pos: Pos::default() }));
                }
                M::Typename => {
                    self.budget -= 1;
                    out.push(Selection::Field(Field { alias: None, name: pn("__typename"), args: vec![], directives: vec![], sel: vec![], pos: Pos::default() }));
                }
                M::Inline(cond) => {
                    self.budget -= 1;
                    let directives = self.directive();
                    let inner = cond.clone().unwrap_or_else(|| ty.to_string());
                    self.feature(if cond.is_some() { "inline-fragment" } else { "inline-fragment-untyped" });
                    let sub = self.sel(&inner, depth + 1);
                    out.push(Selection::Inline(Inline { cond: cond.map(|c| pn(&c)), directives, sel: sub, pos: Pos::default() }));
                }
                M::Spread(k) => {
                    self.budget -= 1;
                    let name = format!("F{k}");
                    if !self.frags_used.contains(&name) {
                        self.frags_used.push(name.clone());
                    }
                    self.feature("fragment-spread");
                    let directives = self.directive();
                    out.push(Selection::Spread(Spread { name: pn(&name), directives, pos: Pos::default() }));
                }
            }
        }
        out
    }
}

/// Generate one document from the chooser. `None` = the budget ran out in a way
/// that leaves an empty selection set (not a document).
pub fn gen_doc(cfg: &GenCfg, ch: &mut Chooser) -> Option<GenDoc> {
    let root = cfg.schema.root(cfg.op)?.to_string();
    let mut g = G { cfg, ch, budget: cfg.max_nodes, vars: vec![], given: Map::new(), features: vec![], frags_used: vec![] };
    let sel = g.sel(&root, 0);
    if sel.is_empty() {
        return None;
    }
    let mut defs = Vec::new();
    // fragment definitions, in order of first use; bodies may spread further fragments
    let mut frag_defs = Vec::new();
    let mut i = 0;
    while i < g.frags_used.len() {
        let name = g.frags_used[i].clone();
        i += 1;
        let conds = cfg.conds;
        if conds.is_empty() {
            return None;
        }
        let c = g.ch.any("fragment-cond", conds.len());
        let cond = conds[c].to_string();
        if g.budget == 0 {
            return None;
        }
        let body = g.sel(&cond, 1);
        if body.is_empty() {
            return None;
        }
        frag_defs.push(ExecDef::Frag(Fragment { name: pn(&name), cond: pn(&cond), directives: vec![], sel: body, pos: Pos::default() }));
    }
    fn has_empty(sel: &[Selection], s: &Schema, parent: &str) -> bool {
        for x in sel {
            match x {
                Selection::Field(f) => {
                    if let Some(fd) = s.field(parent, &f.name.s) {
                        if s.is_composite(fd.ty.base()) && (f.sel.is_empty() || has_empty(&f.sel, s, fd.ty.base())) {
                            return true;
                        }
                    }
                }
                Selection::Inline(i) => {
                    if i.sel.is_empty() {
                        return true;
                    }
                    let inner = i.cond.as_ref().map(|c| c.s.as_str()).unwrap_or(parent);
                    if has_empty(&i.sel, s, inner) {
                        return true;
                    }
                }
                Selection::Spread(_) => {}
            }
        }
        false
    }
    if has_empty(&sel, cfg.schema, &root) {
        return None;
    }
    for d in &frag_defs {
        if let ExecDef::Frag(f) = d {
            if has_empty(&f.sel, cfg.schema, &f.cond.s) {
                return None;
            }
        }
    }
    let shorthand = g.vars.is_empty() && cfg.op == OpKind::Query;
    defs.push(ExecDef::Op(Operation { kind: cfg.op, shorthand, name: None, vars: g.vars, directives: vec![], sel, pos: Pos::default() }));
    defs.extend(frag_defs);
    Some(GenDoc { doc: ExecDoc { defs }, variables: g.given, features: g.features })
}
