//! Glue between the real library and the reference model: running requests,
//! turning responses into comparable observations, lazy chooser-driven worlds.

use agv_engine::explore::{Chooser, Class};
use agv_refgql::ast::Type;
use agv_refgql::coerce::Val;
use agv_refgql::exec::{path_str, Ans, Path, Seg, TableWorld, World};
use agv_refgql::schema::{FieldT, Kind, Schema};
use async_graphql::{PathSegment, Response};
use serde_json::{json, Value as J};
use std::collections::BTreeMap;

#[derive(Clone, Debug, PartialEq)]
pub struct ObsErr {
    pub path: Path,
    pub locs: Vec<(u32, u32)>,
    pub message: String,
}

#[derive(Clone, Debug, PartialEq)]
pub struct Obs {
    /// serialized `data` (key order preserved)
    pub data: String,
    pub errors: Vec<ObsErr>,
}

pub fn obs_of(r: &Response) -> Obs {
    Obs {
        data: serde_json::to_string(&r.data).unwrap_or_else(|e| format!("<unserializable: {e}>")),
        errors: r
            .errors
            .iter()
            .map(|e| ObsErr {
                path: e.path.iter().map(|s| match s { PathSegment::Field(f) => Seg::Key(f.clone()), PathSegment::Index(i) => Seg::Idx(*i) }).collect(),
                locs: e.locations.iter().map(|p| (p.line as u32, p.column as u32)).collect(),
                message: e.message.clone(),
            })
            .collect(),
    }
}

impl Obs {
    pub fn to_json(&self) -> J {
        json!({"data": self.data, "errors": self.errors.iter().map(|e| json!({"path": path_str(&e.path), "locations": e.locs, "message": e.message})).collect::<Vec<_>>()})
    }
    /// multiset of (path, locations), sorted — the order-insensitive view of the errors
    pub fn error_keys(&self) -> Vec<(String, Vec<(u32, u32)>)> {
        let mut v: Vec<_> = self.errors.iter().map(|e| (path_str(&e.path), e.locs.clone())).collect();
        v.sort();
        v
    }
}

pub fn table_json(t: &BTreeMap<String, Ans>) -> J {
    J::Object(t.iter().map(|(k, v)| (k.clone(), J::String(format!("{v:?}")))).collect())
}

pub fn ans_from_debug(s: &str) -> Option<Ans> {
    let inner = |p: &str| s.strip_prefix(p).and_then(|r| r.strip_suffix(')'));
    Some(match s {
        "Err" => Ans::Err,
        "Null" => Ans::Null,
        "WrongKind" => Ans::WrongKind,
        _ => {
            if let Some(x) = inner("Int(") {
                Ans::Int(x.parse().ok()?)
            } else if let Some(x) = inner("Float(") {
                Ans::Float(match x {
                    "NaN" => f64::NAN,
                    "inf" => f64::INFINITY,
                    "-inf" => f64::NEG_INFINITY,
                    _ => x.parse().ok()?,
                })
            } else if let Some(x) = inner("Str(") {
                Ans::Str(serde_json::from_str::<String>(x).ok()?)
            } else if let Some(x) = inner("Bool(") {
                Ans::Bool(x == "true")
            } else if let Some(x) = inner("Enum(") {
                Ans::Enum(serde_json::from_str::<String>(x).ok()?)
            } else if let Some(x) = inner("Obj(") {
                Ans::Obj(serde_json::from_str::<String>(x).ok()?)
            } else if let Some(x) = inner("List(") {
                Ans::List(x.parse().ok()?)
            } else {
                return None;
            }
        }
    })
}

pub fn table_from_json(j: &J) -> BTreeMap<String, Ans> {
    j.as_object().map(|o| o.iter().filter_map(|(k, v)| Some((k.clone(), ans_from_debug(v.as_str()?)?))).collect()).unwrap_or_default()
}

/// Which answers a position of type `ty` may take, simplest (= the table default) first.
#[derive(Clone, Copy, Debug)]
pub struct MenuCfg {
    /// include resolver errors (C03) — otherwise only values (C01/C02)
    pub errors: bool,
    /// include non-finite floats
    pub non_finite: bool,
    /// include kind-mismatching values (dynamic schemas only)
    pub wrong_kind: bool,
    /// richer value menus (second Int, empty string, 2-element lists)
    pub rich: bool,
}

pub fn menu(s: &Schema, ty: &Type, cfg: &MenuCfg, is_item: bool) -> Vec<Ans> {
    let nullable = !ty.is_non_null();
    let inner = ty.nullable();
    let mut m: Vec<Ans> = Vec::new();
    match inner {
        Type::List(_) => {
            m.push(Ans::List(1));
            m.push(Ans::List(0));
            m.push(Ans::List(2));
        }
        Type::Named(n) => match s.ty(n).map(|t| &t.kind) {
            Some(Kind::Scalar) => match n.as_str() {
                "Int" => {
                    m.push(Ans::Int(1));
                    if cfg.rich {
                        m.push(Ans::Int(2));
                    }
                }
                "Float" => {
                    m.push(Ans::Float(1.5));
                    if cfg.rich {
                        m.push(Ans::Float(-0.0));
                    }
                    if cfg.non_finite {
                        m.push(Ans::Float(f64::NAN));
                        m.push(Ans::Float(f64::INFINITY));
                    }
                }
                "Boolean" => {
                    m.push(Ans::Bool(true));
                    m.push(Ans::Bool(false));
                }
                "Even" => {
                    m.push(Ans::Int(2));
                    // rejected by the scalar's validator: a completion error is expected
                    m.push(Ans::Int(3));
                }
                _ => {
                    m.push(Ans::Str("x".into()));
                    if cfg.rich {
                        m.push(Ans::Str(String::new()));
                    }
                }
            },
            Some(Kind::Enum { values }) => {
                for (v, _, _) in values.iter().take(2) {
                    m.push(Ans::Enum(v.clone()));
                }
            }
            Some(Kind::Object { .. }) => m.push(Ans::Obj(n.clone())),
            Some(Kind::Interface { .. } | Kind::Union { .. }) => {
                for t in s.possible_types(n) {
                    m.push(Ans::Obj(t));
                }
            }
            _ => m.push(Ans::Null),
        },
        Type::NonNull(_) => unreachable!(),
    }
    if nullable {
        m.push(Ans::Null);
    }
    if cfg.errors && !is_item {
        m.push(Ans::Err);
    }
    // a dynamic object value is opaque user data: there is no "kind" to get wrong
    let opaque_object = matches!(inner, Type::Named(n) if s.is_object(n));
    if cfg.wrong_kind && !opaque_object {
        m.push(Ans::WrongKind);
    }
    // (dynamic) a resolver yielding nothing / an explicit null for a non-null type
    if cfg.wrong_kind && !nullable {
        m.push(Ans::Null);
    }
    debug_assert!(m[0] == TableWorld::default_for(s, ty));
    m
}

/// A world whose answers are drawn lazily from a chooser the first time the
/// reference executor asks, and recorded so the implementation can be run
/// against the same frozen table.
pub struct ChooserWorld<'a, 'c> {
    pub s: &'a Schema,
    pub ch: &'c mut Chooser,
    pub cfg: MenuCfg,
    pub class: Class,
    /// class charged for fault answers (`Err`, `WrongKind`); defaults to `class`
    pub fault_class: Option<Class>,
    pub table: BTreeMap<String, Ans>,
    pub asked: usize,
    /// restrict the menu at a position (e.g. what the static family can express)
    pub filter: Option<&'a (dyn Fn(&[Seg], &Type, bool, &Ans) -> bool + Sync)>,
}

impl<'a, 'c> World for ChooserWorld<'a, 'c> {
    fn ask(&mut self, path: &[Seg], ty: &Type, field: Option<(&str, &FieldT, &[(String, Val)])>) -> Ans {
        let key = path_str(path);
        if let Some(a) = self.table.get(&key) {
            return a.clone();
        }
        self.asked += 1;
        let mut m = menu(self.s, ty, &self.cfg, field.is_none());
        if let Some(f) = self.filter {
            let d = m[0].clone();
            m.retain(|a| *a == d || f(path, ty, field.is_none(), a));
        }
        let k = match self.fault_class {
            Some(fc) if m.len() > 1 => {
                let nn = ty.is_non_null();
                let classes: Vec<Class> = m.iter().map(|a| if matches!(a, Ans::Err | Ans::WrongKind) || (nn && *a == Ans::Null) { fc } else { self.class }).collect();
                self.ch.pick_costed("world", &classes)
            }
            _ => self.ch.pick(self.class, "world", m.len()),
        };
        let a = m[k].clone();
        if k != 0 {
            self.table.insert(key, a.clone());
        }
        a
    }
}

/// Compare the type systems of two SDL texts (through the reference parser):
/// names, kinds, fields, argument names/types, field types, enum values, union
/// members, implemented interfaces. Descriptions and directives are ignored.
pub fn sdl_equiv(reference_sdl: &str, impl_sdl: &str) -> Result<(), String> {
    let a = Schema::from_sdl(reference_sdl)?;
    let b = Schema::from_sdl(impl_sdl).map_err(|e| format!("implementation SDL: {e}"))?;
    let builtin = |n: &str| agv_refgql::schema::BUILTIN_SCALARS.contains(&n);
    for (n, ta) in &a.types {
        if builtin(n) {
            continue;
        }
        let Some(tb) = b.types.get(n) else { return Err(format!("type {n} missing from implementation SDL")) };
        let norm = |k: &Kind| -> String {
            match k {
                Kind::Scalar => "scalar".into(),
                Kind::Object { interfaces, fields } | Kind::Interface { interfaces, fields } => {
                    let mut i = interfaces.clone();
                    i.sort();
                    let mut f: Vec<String> = fields.iter().map(|f| format!("{}({}):{}", f.name, f.args.iter().map(|a| format!("{}:{}", a.name, a.ty)).collect::<Vec<_>>().join(","), f.ty)).collect();
                    f.sort();
                    format!("{} impl[{}] {{{}}}", if matches!(k, Kind::Object { .. }) { "object" } else { "interface" }, i.join(","), f.join(" "))
                }
                Kind::Union { members } => {
                    let mut m = members.clone();
                    m.sort();
                    format!("union {}", m.join("|"))
                }
                Kind::Enum { values } => format!("enum {}", values.iter().map(|v| v.0.clone()).collect::<Vec<_>>().join(" ")),
                Kind::Input { fields, one_of } => format!("input{} {}", if *one_of { "@oneOf" } else { "" }, fields.iter().map(|a| format!("{}:{}", a.name, a.ty)).collect::<Vec<_>>().join(" ")),
            }
        };
        if norm(&ta.kind) != norm(&tb.kind) {
            return Err(format!("type {n} differs:\n  reference: {}\n  implementation: {}", norm(&ta.kind), norm(&tb.kind)));
        }
    }
    for n in b.types.keys() {
        if !builtin(n) && !a.types.contains_key(n) && !n.starts_with("__") {
            return Err(format!("type {n} only in implementation SDL"));
        }
    }
    Ok(())
}
