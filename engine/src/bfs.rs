//! Explicit-state breadth-first search where a state *is* the event history
//! that reaches it (live objects cannot be cloned): `step(history)` builds a
//! fresh real object, replays the history, evaluates the invariants and the
//! reference-model agreement, and returns a canonical key of (model state,
//! observable real state). Histories with equal keys are merged. Level
//! synchronous, parallel inside a level, deterministic merge order.

use rayon::prelude::*;
use std::collections::HashSet;

pub struct Step {
    /// Canonical state key (hash of the sorted, property-relevant summary).
    pub key: u64,
    /// false = terminal (closed connection …): do not extend.
    pub expand: bool,
}

#[derive(Debug, Default, Clone)]
pub struct BfsStats {
    pub states: u64,
    pub transitions: u64,
    pub depth_completed: usize,
    pub capped: bool,
    pub per_level: Vec<(u64, u64)>,
}

pub struct BfsCfg {
    pub max_depth: usize,
    pub max_states: u64,
}

/// `alphabet`: the full event menu. `step(history)`: `None` when the last event
/// is not enabled in the state reached by the rest of the history.
pub fn bfs<E: Clone + Send + Sync>(
    alphabet: &[E],
    cfg: &BfsCfg,
    step: &(dyn Fn(&[E]) -> Option<Step> + Sync),
) -> BfsStats {
    let mut stats = BfsStats::default();
    let mut seen: HashSet<u64> = HashSet::new();
    let mut frontier: Vec<Vec<E>> = Vec::new();
    if let Some(s0) = step(&[]) {
        seen.insert(s0.key);
        stats.states = 1;
        if s0.expand {
            frontier.push(Vec::new());
        }
    }
    for depth in 1..=cfg.max_depth {
        if frontier.is_empty() {
            stats.depth_completed = depth - 1;
            return stats;
        }
        let work: Vec<(usize, usize)> =
            (0..frontier.len()).flat_map(|i| (0..alphabet.len()).map(move |j| (i, j))).collect();
        let results: Vec<Option<(Vec<E>, Step)>> = work
            .par_iter()
            .map(|(i, j)| {
                let mut h = frontier[*i].clone();
                h.push(alphabet[*j].clone());
                step(&h).map(|s| (h, s))
            })
            .collect();
        let mut next = Vec::new();
        let (mut new_states, mut trans) = (0u64, 0u64);
        for r in results.into_iter().flatten() {
            trans += 1;
            let (h, s) = r;
            if seen.insert(s.key) {
                new_states += 1;
                if s.expand {
                    next.push(h);
                }
            }
        }
        stats.states += new_states;
        stats.transitions += trans;
        stats.per_level.push((new_states, trans));
        stats.depth_completed = depth;
        frontier = next;
        if stats.states >= cfg.max_states {
            stats.capped = true;
            return stats;
        }
    }
    stats
}
