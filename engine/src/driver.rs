//! Common `main` of every check binary: `agv-cXX <ID> <quick|thorough> [--replay FILE]`.

use crate::record::{Cx, Tier};
use std::path::PathBuf;

fn verif_root() -> PathBuf {
    if let Ok(p) = std::env::var("AGV_ROOT") {
        return PathBuf::from(p);
    }
    // <root>/<target dir>/agv/<bin> -> <root>
    let exe = std::env::current_exe().unwrap();
    exe.parent()
        .and_then(|p| p.parent())
        .and_then(|p| p.parent())
        .map(|p| p.to_path_buf())
        .unwrap_or_else(|| PathBuf::from("/verif"))
}

pub type ReplayFn = fn(&serde_json::Value) -> String;

/// Never returns: exits 0 (held) / 1 (violation) / 2 (machinery).
pub fn main(id: &str, level: &str, run: fn(&Cx), replay: Option<ReplayFn>) -> ! {
    let args: Vec<String> = std::env::args().skip(1).collect();
    // accepted forms: [<ID>] [quick|thorough] [--replay FILE]
    if let Some(i) = args.iter().position(|a| a == "--replay") {
        let Some(path) = args.get(i + 1) else {
            eprintln!("--replay needs a file");
            std::process::exit(2);
        };
        let text = std::fs::read_to_string(path).unwrap_or_else(|e| {
            eprintln!("cannot read {path}: {e}");
            std::process::exit(2)
        });
        let v: serde_json::Value = serde_json::from_str(&text).unwrap_or_else(|e| {
            eprintln!("replay file is not JSON: {e}");
            std::process::exit(2)
        });
        println!("replaying property={} class={}", v["property"], v["class"]);
        println!("recorded: {}", v["detail"].as_str().unwrap_or(""));
        match replay {
            Some(f) => println!("now: {}", f(&v["case"])),
            None => println!("(no single-case replayer for {id}; case = {})", v["case"]),
        }
        std::process::exit(0);
    }
    let tier_arg = args.iter().find(|a| *a == "quick" || *a == "thorough").cloned().or(std::env::var("VERIF_TIER").ok());
    let tier = match tier_arg.as_deref() {
        Some("thorough") => Tier::Thorough,
        _ => Tier::Quick,
    };
    crate::install_quiet_panic_hook();
    let cx = Cx::new(id, tier, level, verif_root());
    let r = crate::catch(|| run(&cx));
    if let Err(p) = r {
        println!("MACHINERY-ERROR: check {id} panicked: {p}");
        std::process::exit(2);
    }
    std::process::exit(cx.finish());
}
