//! Stateless, deviation-bounded depth-first search over choice sequences.
//!
//! A harness is a deterministic function `run(&mut Chooser) -> O`; every source
//! of nondeterminism is a `pick`. Answer 0 is the default. `explore` runs the
//! all-default execution, then every execution that differs from an already
//! executed one in exactly one later choice, recursively, subject to per-class
//! deviation bounds. Every distinct admissible choice sequence is executed
//! exactly once. Re-running a prefix must hit the same (label, arity) at every
//! position; anything else means the harness does not own its nondeterminism
//! and aborts the whole check as a machinery error.

use rayon::prelude::*;
use std::sync::atomic::{AtomicBool, AtomicU64, Ordering};

#[derive(Clone, Copy, PartialEq, Eq, Hash, Debug)]
pub enum Class {
    /// Every alternative is explored at every point.
    Exhaustive,
    /// A non-default answer costs one unit of deviation budget `k` (0..4).
    Dev(u8),
}

#[derive(Clone, Debug)]
pub struct Point {
    pub label: u64,
    pub n: u32,
    pub chosen: u32,
    pub class: Class,
    /// Per-alternative classes when they differ (index = alternative).
    pub alt_classes: Option<Vec<Class>>,
}

impl Point {
    fn class_of(&self, alt: u32) -> Class {
        match &self.alt_classes {
            Some(v) => v[alt as usize],
            None => self.class,
        }
    }
}

#[derive(Clone, Debug)]
pub struct PrefixItem {
    pub choice: u32,
    pub label: u64,
    pub n: u32,
}

pub struct Chooser {
    prefix: Vec<PrefixItem>,
    pub points: Vec<Point>,
    pub diverged: Option<String>,
    /// When set, labels are recorded as text (replay / samples).
    pub trace: Option<Vec<String>>,
}

impl Chooser {
    pub fn new(prefix: Vec<PrefixItem>) -> Chooser {
        Chooser { prefix, points: Vec::new(), diverged: None, trace: None }
    }
    /// A chooser that always answers from a plain list (for replay files).
    pub fn from_choices(choices: &[u32]) -> Chooser {
        Chooser {
            prefix: choices.iter().map(|c| PrefixItem { choice: *c, label: 0, n: 0 }).collect(),
            points: Vec::new(),
            diverged: None,
            trace: Some(Vec::new()),
        }
    }
    pub fn choices(&self) -> Vec<u32> {
        self.points.iter().map(|p| p.chosen).collect()
    }
    /// Number of non-default answers taken so far.
    pub fn deviations(&self) -> usize {
        self.points.iter().filter(|p| p.chosen != 0).count()
    }

    fn pick_inner(&mut self, class: Class, alt_classes: Option<Vec<Class>>, label: &str, n: usize) -> usize {
        if n <= 1 {
            return 0;
        }
        let lh = crate::hstr(label);
        let i = self.points.len();
        let mut c = 0u32;
        if i < self.prefix.len() {
            let it = &self.prefix[i];
            c = it.choice;
            let strict = it.n != 0;
            if (strict && (it.label != lh || it.n != n as u32)) || c as usize >= n {
                if self.diverged.is_none() {
                    self.diverged = Some(format!(
                        "replay diverged at choice point {i}: recorded (label#{:x}, n={}) choice {} but harness asked '{label}' n={n}",
                        it.label, it.n, it.choice
                    ));
                }
                c = 0;
            }
        }
        if let Some(t) = &mut self.trace {
            t.push(format!("{label}:{c}/{n}"));
        }
        self.points.push(Point { label: lh, n: n as u32, chosen: c, class, alt_classes });
        c as usize
    }

    pub fn pick(&mut self, class: Class, label: &str, n: usize) -> usize {
        self.pick_inner(class, None, label, n)
    }
    /// Alternatives with individual classes (e.g. "continue" free, "switch task" costs a preemption).
    pub fn pick_costed(&mut self, label: &str, classes: &[Class]) -> usize {
        self.pick_inner(classes[0], Some(classes.to_vec()), label, classes.len())
    }
    pub fn any(&mut self, label: &str, n: usize) -> usize {
        self.pick(Class::Exhaustive, label, n)
    }
    pub fn dev(&mut self, k: u8, label: &str, n: usize) -> usize {
        self.pick(Class::Dev(k), label, n)
    }
    pub fn flag(&mut self, class: Class, label: &str) -> bool {
        self.pick(class, label, 2) == 1
    }
}

#[derive(Clone, Debug)]
pub struct ExploreCfg {
    /// Budget for each deviation class Dev(0..4).
    pub bounds: [u32; 4],
    /// Hard cap on executions (reported as `capped` when hit).
    pub max_execs: u64,
    pub parallel: bool,
}
impl Default for ExploreCfg {
    fn default() -> Self {
        ExploreCfg { bounds: [0; 4], max_execs: u64::MAX, parallel: true }
    }
}
impl ExploreCfg {
    pub fn bounds(b: [u32; 4]) -> Self {
        ExploreCfg { bounds: b, ..Default::default() }
    }
}

#[derive(Default, Debug)]
pub struct ExploreStats {
    pub executions: u64,
    pub points: u64,
    pub max_depth: u64,
    pub capped: bool,
    pub diverged: Option<String>,
}

struct Shared<'a, O> {
    cfg: &'a ExploreCfg,
    run: &'a (dyn Fn(&mut Chooser) -> O + Sync),
    visit: &'a (dyn Fn(&Chooser, O) + Sync),
    execs: AtomicU64,
    points: AtomicU64,
    max_depth: AtomicU64,
    capped: AtomicBool,
    diverged: std::sync::Mutex<Option<String>>,
}

fn go<O>(sh: &Shared<O>, prefix: Vec<PrefixItem>, costs: [u32; 4]) {
    if sh.diverged.lock().unwrap().is_some() {
        return;
    }
    let n = sh.execs.fetch_add(1, Ordering::Relaxed);
    if n >= sh.cfg.max_execs {
        sh.capped.store(true, Ordering::Relaxed);
        return;
    }
    let plen = prefix.len();
    let mut ch = Chooser::new(prefix);
    let o = (sh.run)(&mut ch);
    if let Some(d) = ch.diverged.take() {
        *sh.diverged.lock().unwrap() = Some(d);
        return;
    }
    if ch.points.len() < plen {
        *sh.diverged.lock().unwrap() =
            Some(format!("replay diverged: harness stopped after {} choice points, prefix had {}", ch.points.len(), plen));
        return;
    }
    sh.points.fetch_add(ch.points.len() as u64, Ordering::Relaxed);
    sh.max_depth.fetch_max(ch.points.len() as u64, Ordering::Relaxed);
    let mut children: Vec<(usize, u32, [u32; 4])> = Vec::new();
    for i in plen..ch.points.len() {
        let p = &ch.points[i];
        for alt in 1..p.n {
            match p.class_of(alt) {
                Class::Exhaustive => children.push((i, alt, costs)),
                Class::Dev(k) => {
                    let k = k as usize;
                    if costs[k] + 1 <= sh.cfg.bounds[k] {
                        let mut c = costs;
                        c[k] += 1;
                        children.push((i, alt, c));
                    }
                }
            }
        }
    }
    let mk = |i: usize, alt: u32| -> Vec<PrefixItem> {
        let mut np: Vec<PrefixItem> =
            ch.points[..i].iter().map(|p| PrefixItem { choice: p.chosen, label: p.label, n: p.n }).collect();
        np.push(PrefixItem { choice: alt, label: ch.points[i].label, n: ch.points[i].n });
        np
    };
    let prefixes: Vec<(Vec<PrefixItem>, [u32; 4])> = children.iter().map(|(i, alt, c)| (mk(*i, *alt), *c)).collect();
    (sh.visit)(&ch, o);
    drop(ch);
    if sh.cfg.parallel && prefixes.len() > 1 {
        prefixes.into_par_iter().for_each(|(p, c)| go(sh, p, c));
    } else {
        for (p, c) in prefixes {
            go(sh, p, c);
        }
    }
}

/// Explore every admissible choice sequence of `run`; `visit` sees each execution once.
pub fn explore<O>(
    cfg: &ExploreCfg,
    run: &(dyn Fn(&mut Chooser) -> O + Sync),
    visit: &(dyn Fn(&Chooser, O) + Sync),
) -> ExploreStats {
    let sh = Shared {
        cfg,
        run,
        visit,
        execs: AtomicU64::new(0),
        points: AtomicU64::new(0),
        max_depth: AtomicU64::new(0),
        capped: AtomicBool::new(false),
        diverged: std::sync::Mutex::new(None),
    };
    go(&sh, Vec::new(), [0; 4]);
    let capped = sh.capped.load(Ordering::Relaxed);
    let e = sh.execs.load(Ordering::Relaxed);
    ExploreStats {
        executions: if capped { e.min(cfg.max_execs) } else { e },
        points: sh.points.load(Ordering::Relaxed),
        max_depth: sh.max_depth.load(Ordering::Relaxed),
        capped,
        diverged: sh.diverged.into_inner().unwrap(),
    }
}

#[cfg(test)]
mod tests {
    use super::*;
    use std::sync::Mutex;

    #[test]
    fn enumerates_every_sequence_once() {
        // 3 exhaustive binary choices + dependent 4th => count sequences.
        let seen = Mutex::new(Vec::new());
        let st = explore(
            &ExploreCfg::default(),
            &|c: &mut Chooser| {
                let a = c.any("a", 2);
                let b = c.any("b", 3);
                let d = if a == 1 { c.any("d", 2) } else { 0 };
                (a, b, d)
            },
            &|_, o| seen.lock().unwrap().push(o),
        );
        let mut v = seen.into_inner().unwrap();
        v.sort();
        let before = v.len();
        v.dedup();
        assert_eq!(before, v.len());
        assert_eq!(v.len(), 3 + 6);
        assert_eq!(st.executions, 9);
    }

    #[test]
    fn deviation_bound_limits_nonzero_answers() {
        let seen = Mutex::new(Vec::new());
        explore(
            &ExploreCfg::bounds([2, 0, 0, 0]),
            &|c: &mut Chooser| (0..5).map(|i| c.dev(0, &format!("p{i}"), 2)).collect::<Vec<_>>(),
            &|_, o| seen.lock().unwrap().push(o),
        );
        let v = seen.into_inner().unwrap();
        assert_eq!(v.len(), 1 + 5 + 10);
        assert!(v.iter().all(|x| x.iter().filter(|y| **y != 0).count() <= 2));
    }

    #[test]
    fn divergence_is_detected() {
        use std::sync::atomic::AtomicU32;
        let n = AtomicU32::new(0);
        let st = explore(
            &ExploreCfg { parallel: false, ..Default::default() },
            &|c: &mut Chooser| {
                let k = n.fetch_add(1, Ordering::Relaxed);
                // label depends on hidden state: not owned nondeterminism
                c.any(&format!("x{k}"), 2);
                c.any("y", 2);
            },
            &|_, _| {},
        );
        assert!(st.diverged.is_some());
    }
}
