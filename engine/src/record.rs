//! Evidence, violations and known findings.
//!
//! A check receives a `Cx`, feeds it counts / samples / violations from any
//! number of threads, and the driver calls `finish()` which writes
//! `evidence/<ID>.json`, prints `KNOWN-FINDING:` / `VIOLATION` lines and
//! returns the process exit code (0 held, 1 violation, 2 machinery problem).

use serde_json::{json, Map, Value};
use std::collections::{BTreeMap, HashSet};
use std::path::PathBuf;
use std::sync::atomic::{AtomicU64, Ordering};
use std::sync::Mutex;
use std::time::Instant;

#[derive(Clone, Copy, PartialEq, Eq, Debug)]
pub enum Tier {
    Quick,
    Thorough,
}
impl Tier {
    pub fn name(self) -> &'static str {
        match self {
            Tier::Quick => "quick",
            Tier::Thorough => "thorough",
        }
    }
    pub fn pick<T>(self, q: T, t: T) -> T {
        match self {
            Tier::Quick => q,
            Tier::Thorough => t,
        }
    }
}

/// One discrepancy between the property and what the real code did.
#[derive(Clone, Debug)]
pub struct Violation {
    /// Defect class computed from the discrepancy itself.
    pub class: String,
    /// Structural features that pin the site (matched against known findings).
    pub keys: BTreeMap<String, String>,
    /// Human-readable: expected vs. observed.
    pub detail: String,
    /// Everything needed to re-run exactly this case.
    pub case: Value,
}

impl Violation {
    pub fn new(class: impl Into<String>, detail: impl Into<String>, case: Value) -> Self {
        Violation { class: class.into(), keys: BTreeMap::new(), detail: detail.into(), case }
    }
    pub fn key(mut self, k: &str, v: impl Into<String>) -> Self {
        self.keys.insert(k.to_string(), v.into());
        self
    }
}

#[derive(Clone, Debug)]
struct Finding {
    status: String,
    property: String,
    class: String,
    matcher: BTreeMap<String, Vec<String>>,
    what: String,
}

struct Inner {
    distinct: HashSet<u64>,
    samples: Vec<(u64, Value)>,
    new_violations: Vec<Violation>,
    new_by_class: BTreeMap<String, u64>,
    known_hits: BTreeMap<usize, (u64, String)>,
    rule: String,
    assumptions: Vec<String>,
    extra: Map<String, Value>,
    exhaustive: Option<bool>,
    machinery_errors: Vec<String>,
}

pub struct Cx {
    pub property: String,
    pub tier: Tier,
    pub seed: u64,
    pub level: String,
    pub root: PathBuf,
    evals: AtomicU64,
    states: AtomicU64,
    transitions: AtomicU64,
    traces: AtomicU64,
    violations_total: AtomicU64,
    distinct_by_construction: AtomicU64,
    sample_threshold: AtomicU64,
    inner: Mutex<Inner>,
    findings: Vec<Finding>,
    start: Instant,
}

const SAMPLE_CAP: usize = 6;
const STORE_PER_CLASS: u64 = 3;

fn mix(h: u64, seed: u64) -> u64 {
    let mut x = h ^ seed.wrapping_mul(0x9E3779B97F4A7C15);
    x ^= x >> 33;
    x = x.wrapping_mul(0xff51afd7ed558ccd);
    x ^= x >> 33;
    x
}

impl Cx {
    pub fn new(property: &str, tier: Tier, level: &str, root: PathBuf) -> Cx {
        let seed = std::env::var("VERIF_SEED").ok().and_then(|s| s.parse::<u64>().ok()).unwrap_or(0);
        let mut findings = load_findings(&root.join("known_findings.json"));
        // per-check staging files (merged into known_findings.json at integration time)
        if let Ok(rd) = std::fs::read_dir(root.join("known_findings.d")) {
            let mut ps: Vec<_> = rd.flatten().map(|e| e.path()).filter(|p| p.extension().map(|x| x == "json").unwrap_or(false)).collect();
            ps.sort();
            for p in ps {
                findings.extend(load_findings(&p));
            }
        }
        Cx {
            property: property.to_string(),
            tier,
            seed,
            level: level.to_string(),
            root,
            evals: AtomicU64::new(0),
            states: AtomicU64::new(0),
            transitions: AtomicU64::new(0),
            traces: AtomicU64::new(0),
            violations_total: AtomicU64::new(0),
            distinct_by_construction: AtomicU64::new(0),
            sample_threshold: AtomicU64::new(u64::MAX),
            inner: Mutex::new(Inner {
                distinct: HashSet::new(),
                samples: Vec::new(),
                new_violations: Vec::new(),
                new_by_class: BTreeMap::new(),
                known_hits: BTreeMap::new(),
                rule: String::new(),
                assumptions: Vec::new(),
                extra: Map::new(),
                exhaustive: None,
                machinery_errors: Vec::new(),
            }),
            findings,
            start: Instant::now(),
        }
    }

    /// A throw-away recorder for `--replay`: evidence and replay files go to a scratch directory,
    /// no known findings are loaded, so whatever the single case violates is printed in full.
    pub fn scratch(property: &str, level: &str) -> Cx {
        let dir = std::env::temp_dir().join(format!("agv-replay-{}", std::process::id()));
        let _ = std::fs::create_dir_all(&dir);
        Cx::new(property, Tier::Quick, level, dir)
    }
    /// Finish a scratch recorder: print what was found, remove the scratch directory.
    pub fn finish_scratch(self) -> String {
        let dir = self.root.clone();
        let total = self.violations_total.load(Ordering::Relaxed);
        let code = self.finish();
        let _ = std::fs::remove_dir_all(&dir);
        if total == 0 {
            format!("the case no longer violates the property (exit {code} is about the one-case run only)")
        } else {
            format!("{total} violation(s) reproduced (printed above)")
        }
    }

    pub fn quick(&self) -> bool {
        self.tier == Tier::Quick
    }

    /// Count `n` evaluations (executions of real code checked by the oracle).
    pub fn evals(&self, n: u64) {
        self.evals.fetch_add(n, Ordering::Relaxed);
    }
    pub fn eval(&self) {
        self.evals(1);
    }
    pub fn add_states(&self, n: u64) {
        self.states.fetch_add(n, Ordering::Relaxed);
    }
    pub fn add_transitions(&self, n: u64) {
        self.transitions.fetch_add(n, Ordering::Relaxed);
    }
    pub fn add_traces(&self, n: u64) {
        self.traces.fetch_add(n, Ordering::Relaxed);
    }

    /// Register a case that is non-trivial by the check's rule, identified by a hash.
    pub fn nontrivial(&self, h: u64) {
        self.inner.lock().unwrap().distinct.insert(h);
    }
    /// Count `n` non-trivial cases that are pairwise distinct *by construction*
    /// (an enumeration without repetition), avoiding a hash-set insert per case.
    pub fn nontrivial_count(&self, n: u64) {
        self.distinct_by_construction.fetch_add(n, Ordering::Relaxed);
    }
    pub fn nontrivial_many(&self, hs: impl IntoIterator<Item = u64>) {
        let mut g = self.inner.lock().unwrap();
        g.distinct.extend(hs);
    }

    /// Cheap pre-test: would a sample with this identity be kept?
    pub fn want_sample(&self, h: u64) -> bool {
        mix(h, self.seed) < self.sample_threshold.load(Ordering::Relaxed)
    }
    /// Offer a sample (kept if among the SAMPLE_CAP smallest seeded hashes).
    pub fn sample(&self, h: u64, v: Value) {
        let m = mix(h, self.seed);
        let mut g = self.inner.lock().unwrap();
        if g.samples.iter().any(|(x, _)| *x == m) {
            return;
        }
        g.samples.push((m, v));
        g.samples.sort_by_key(|(x, _)| *x);
        if g.samples.len() > SAMPLE_CAP {
            g.samples.truncate(SAMPLE_CAP);
        }
        if g.samples.len() == SAMPLE_CAP {
            self.sample_threshold.store(g.samples[SAMPLE_CAP - 1].0, Ordering::Relaxed);
        }
    }
    pub fn sample_with(&self, h: u64, f: impl FnOnce() -> Value) {
        if self.want_sample(h) {
            self.sample(h, f());
        }
    }

    pub fn rule(&self, s: &str) {
        self.inner.lock().unwrap().rule = s.to_string();
    }
    pub fn assume(&self, s: &str) {
        self.inner.lock().unwrap().assumptions.push(s.to_string());
    }
    pub fn exhaustive(&self, b: bool) {
        self.inner.lock().unwrap().exhaustive = Some(b);
    }
    /// Extra coverage key (numbers, bound completed, per-part counts …).
    pub fn extra(&self, k: &str, v: Value) {
        self.inner.lock().unwrap().extra.insert(k.to_string(), v);
    }
    pub fn extra_add(&self, k: &str, n: u64) {
        let mut g = self.inner.lock().unwrap();
        let cur = g.extra.get(k).and_then(|v| v.as_u64()).unwrap_or(0);
        g.extra.insert(k.to_string(), json!(cur + n));
    }
    /// The harness itself is broken (not a verdict about the code).
    pub fn machinery_error(&self, s: impl Into<String>) {
        let mut g = self.inner.lock().unwrap();
        if g.machinery_errors.len() < 20 {
            g.machinery_errors.push(s.into());
        }
    }

    fn match_known(&self, v: &Violation) -> Option<usize> {
        self.findings.iter().position(|f| {
            f.status == "known"
                && f.property == self.property
                && f.class == v.class
                && f.matcher.iter().all(|(k, allowed)| v.keys.get(k).map(|x| allowed.iter().any(|a| a == x)).unwrap_or(false))
        })
    }

    pub fn violation(&self, v: Violation) {
        self.violations_total.fetch_add(1, Ordering::Relaxed);
        let known = self.match_known(&v);
        let mut g = self.inner.lock().unwrap();
        match known {
            Some(i) => {
                let e = g.known_hits.entry(i).or_insert((0, v.detail.clone()));
                e.0 += 1;
            }
            None => {
                let c = g.new_by_class.entry(v.class.clone()).or_insert(0);
                *c += 1;
                if *c <= STORE_PER_CLASS {
                    g.new_violations.push(v);
                }
            }
        }
    }

    pub fn elapsed(&self) -> f64 {
        self.start.elapsed().as_secs_f64()
    }

    /// Write evidence, print verdict lines, return exit code.
    pub fn finish(self) -> i32 {
        let wall = self.start.elapsed().as_secs_f64();
        let g = self.inner.into_inner().unwrap();
        let evals = self.evals.load(Ordering::Relaxed);
        let states = self.states.load(Ordering::Relaxed);
        let transitions = self.transitions.load(Ordering::Relaxed);
        let traces = self.traces.load(Ordering::Relaxed);
        let new_total: u64 = g.new_by_class.values().sum();
        let distinct = g.distinct.len() as u64 + self.distinct_by_construction.load(Ordering::Relaxed);

        let mut cov = Map::new();
        cov.insert("evaluations".into(), json!(evals));
        cov.insert("distinct_nontrivial".into(), json!(distinct));
        cov.insert("rule".into(), json!(g.rule));
        cov.insert("samples".into(), Value::Array(g.samples.iter().map(|(_, v)| v.clone()).collect()));
        if self.level == "model_checking" {
            cov.insert("states".into(), json!(states));
            cov.insert("transitions".into(), json!(transitions));
            cov.insert("traces_validated_against_impl".into(), json!(traces));
        }
        if let Some(b) = g.exhaustive {
            cov.insert("exhaustive".into(), json!(b));
        }
        for (k, v) in g.extra.iter() {
            cov.insert(k.clone(), v.clone());
        }
        let known: Vec<Value> = g
            .known_hits
            .iter()
            .map(|(i, (n, first))| json!({"class": self.findings[*i].class, "what": self.findings[*i].what, "cases": n, "first": first}))
            .collect();
        cov.insert("known_findings_hit".into(), Value::Array(known));
        cov.insert(
            "new_violation_classes".into(),
            Value::Object(g.new_by_class.iter().map(|(k, v)| (k.clone(), json!(v))).collect()),
        );

        let ev = json!({
            "property_id": self.property,
            "tier": self.tier.name(),
            "seed": self.seed,
            "level": self.level,
            "coverage": Value::Object(cov),
            "assumptions": g.assumptions,
            "wall_s": (wall * 1000.0).round() / 1000.0,
            "violations": new_total,
        });
        let evdir = self.root.join("evidence");
        let _ = std::fs::create_dir_all(&evdir);
        let evpath = evdir.join(format!("{}.json", self.property));
        if let Err(e) = std::fs::write(&evpath, serde_json::to_string_pretty(&ev).unwrap() + "\n") {
            eprintln!("MACHINERY: cannot write {}: {e}", evpath.display());
            return 2;
        }

        println!(
            "[{} {}] evaluations={} distinct_nontrivial={} states={} transitions={} wall={:.1}s",
            self.property,
            self.tier.name(),
            evals,
            distinct,
            states,
            transitions,
            wall
        );
        if !g.machinery_errors.is_empty() {
            for m in &g.machinery_errors {
                println!("MACHINERY-ERROR: {m}");
            }
            return 2;
        }
        for (i, (n, _first)) in g.known_hits.iter() {
            let f = &self.findings[*i];
            println!("KNOWN-FINDING: property={} class={} cases={} {}", self.property, f.class, n, f.what);
        }
        if new_total > 0 {
            let rdir = self.root.join("replays").join(&self.property);
            let _ = std::fs::create_dir_all(&rdir);
            for v in &g.new_violations {
                let id = crate::hstr(&format!("{}|{}", v.class, v.case));
                let fname = format!("{}-{:016x}.json", sanitize(&v.class), id);
                let p = rdir.join(&fname);
                let body = json!({"property": self.property, "class": v.class, "keys": v.keys, "detail": v.detail, "case": v.case});
                let _ = std::fs::write(&p, serde_json::to_string_pretty(&body).unwrap() + "\n");
                println!("  class={} keys={:?}\n  {}", v.class, v.keys, v.detail.replace('\n', "\n  "));
                println!("VIOLATION property={} replay=replays/{}/{}", self.property, self.property, fname);
            }
            for (c, n) in g.new_by_class.iter() {
                println!("  violation class {c}: {n} case(s)");
            }
            return 1;
        }
        if distinct < 2 || evals == 0 {
            println!("MACHINERY-ERROR: vacuous run (evaluations={evals}, distinct_nontrivial={distinct})");
            return 2;
        }
        println!("[{}] property held on everything explored", self.property);
        0
    }
}

fn sanitize(s: &str) -> String {
    s.chars().map(|c| if c.is_ascii_alphanumeric() || c == '-' || c == '_' { c } else { '_' }).collect()
}

fn load_findings(p: &std::path::Path) -> Vec<Finding> {
    let Ok(text) = std::fs::read_to_string(p) else { return Vec::new() };
    let v: Value = match serde_json::from_str(&text) {
        Ok(v) => v,
        Err(e) => {
            eprintln!("MACHINERY: known_findings.json does not parse: {e}");
            std::process::exit(2);
        }
    };
    let mut out = Vec::new();
    for e in v.get("findings").and_then(|x| x.as_array()).cloned().unwrap_or_default() {
        let mut matcher = BTreeMap::new();
        if let Some(m) = e.get("match").and_then(|m| m.as_object()) {
            for (k, val) in m {
                let vals = match val {
                    Value::Array(a) => a.iter().filter_map(|x| x.as_str().map(|s| s.to_string())).collect(),
                    Value::String(s) => vec![s.clone()],
                    other => vec![other.to_string()],
                };
                matcher.insert(k.clone(), vals);
            }
        }
        out.push(Finding {
            status: e.get("status").and_then(|x| x.as_str()).unwrap_or("").to_string(),
            property: e.get("property").and_then(|x| x.as_str()).unwrap_or("").to_string(),
            class: e.get("class").and_then(|x| x.as_str()).unwrap_or("").to_string(),
            matcher,
            what: e.get("what").and_then(|x| x.as_str()).unwrap_or("").to_string(),
        });
    }
    out
}
