//! agv-engine: the shared exploration machinery.
//!
//! * `record`  — evidence writer, violation sink, known-findings matcher.
//! * `explore` — stateless deviation-bounded DFS over choice sequences.
//! * `sched`   — single-threaded controlled scheduler for real futures (tasks + gates).
//! * `bfs`     — explicit-state search over event histories.
//!
//! Nothing here depends on async-graphql.

pub mod bfs;
pub mod driver;
pub mod explore;
pub mod record;
pub mod sched;

pub use explore::{Chooser, Class, ExploreCfg, ExploreStats};
pub use record::{Cx, Tier, Violation};

use std::hash::{Hash, Hasher};

/// Deterministic 64-bit FNV-1a hasher (std's SipHash with fixed keys would do as
/// well; this one is stable across Rust versions, which keeps case ids stable).
#[derive(Clone, Copy)]
pub struct Fnv(pub u64);
impl Default for Fnv {
    fn default() -> Self {
        Fnv(0xcbf29ce484222325)
    }
}
impl Hasher for Fnv {
    fn finish(&self) -> u64 {
        self.0
    }
    fn write(&mut self, bytes: &[u8]) {
        for b in bytes {
            self.0 ^= *b as u64;
            self.0 = self.0.wrapping_mul(0x100000001b3);
        }
    }
}

pub fn h64<T: Hash + ?Sized>(t: &T) -> u64 {
    let mut h = Fnv::default();
    t.hash(&mut h);
    h.finish()
}

pub fn hstr(s: &str) -> u64 {
    h64(s)
}

/// Run `f`, converting a panic into `Err(message)`.
pub fn catch<R>(f: impl FnOnce() -> R) -> Result<R, String> {
    match std::panic::catch_unwind(std::panic::AssertUnwindSafe(f)) {
        Ok(r) => Ok(r),
        Err(e) => Err(panic_message(&*e)),
    }
}

pub fn panic_message(e: &(dyn std::any::Any + Send)) -> String {
    if let Some(s) = e.downcast_ref::<&str>() {
        (*s).to_string()
    } else if let Some(s) = e.downcast_ref::<String>() {
        s.clone()
    } else {
        "<non-string panic payload>".to_string()
    }
}

thread_local! {
    static QUIET_DEPTH: std::cell::Cell<u32> = const { std::cell::Cell::new(0) };
}

/// Install (once) a panic hook that stays silent while the current thread is
/// inside `quiet_panics`, so that expected, caught panics (observations) do not
/// flood stderr. Panics outside such regions print as usual.
pub fn install_quiet_panic_hook() {
    use std::sync::Once;
    static ONCE: Once = Once::new();
    ONCE.call_once(|| {
        let prev = std::panic::take_hook();
        std::panic::set_hook(Box::new(move |info| {
            let quiet = QUIET_DEPTH.with(|q| q.get() > 0);
            if !quiet {
                prev(info);
            }
        }));
    });
}

/// Like `catch`, but the panic message is not printed.
pub fn catch_quiet<R>(f: impl FnOnce() -> R) -> Result<R, String> {
    install_quiet_panic_hook();
    QUIET_DEPTH.with(|q| q.set(q.get() + 1));
    let r = catch(f);
    QUIET_DEPTH.with(|q| q.set(q.get() - 1));
    r
}

/// Parallel loop over `0..n` in contiguous chunks.
pub fn par_range(n: u64, chunk: u64, f: &(dyn Fn(u64) + Sync)) {
    use rayon::prelude::*;
    let chunks = n.div_ceil(chunk) as usize;
    (0..chunks).into_par_iter().for_each(|c| {
        let lo = c as u64 * chunk;
        let hi = (lo + chunk).min(n);
        for i in lo..hi {
            f(i);
        }
    });
}
