//! A controlled cooperative scheduler for real futures, single OS thread.
//!
//! *Tasks* are futures (the root future plus anything handed to `Spawner`).
//! *Gates* are named one-shot futures the harness hands to the code under test
//! wherever it awaits the environment (resolver bodies, timers, loader calls,
//! stream polls). Nothing becomes ready except by a scheduler move:
//!   - poll a task that has been woken,
//!   - open a closed gate (wakes whoever waits on it).
//! Every move is a `Chooser::pick`, so `explore` enumerates schedules.

use crate::explore::{Chooser, Class};
use std::future::Future;
use std::pin::Pin;
use std::sync::atomic::{AtomicBool, Ordering};
use std::sync::{Arc, Mutex};
use std::task::{Context, Poll, Wake, Waker};

struct GateSt {
    name: String,
    open: bool,
    dropped: bool,
    waker: Option<Waker>,
}

type BoxFut = Pin<Box<dyn Future<Output = ()> + Send + 'static>>;

#[derive(Default)]
struct St {
    gates: Vec<GateSt>,
    spawn_q: Vec<(String, BoxFut)>,
    log: Vec<String>,
    names: std::collections::HashMap<String, u32>,
}

/// Shared handle: cloneable, `Send + Sync`, given to harness resolvers / loaders / timers.
#[derive(Clone, Default)]
pub struct Handle(Arc<Mutex<St>>);

pub struct Gate {
    h: Handle,
    name: String,
    idx: Option<usize>,
}

impl Handle {
    pub fn new() -> Handle {
        Handle::default()
    }
    /// A future that completes when the scheduler opens the gate called `name`
    /// (a numeric suffix is added when the name was used before).
    pub fn gate(&self, name: impl Into<String>) -> Gate {
        Gate { h: self.clone(), name: name.into(), idx: None }
    }
    /// Append to the execution's event log (resolver start/finish, batches …).
    pub fn log(&self, s: impl Into<String>) {
        self.0.lock().unwrap().log.push(s.into());
    }
    pub fn take_log(&self) -> Vec<String> {
        std::mem::take(&mut self.0.lock().unwrap().log)
    }
    pub fn log_snapshot(&self) -> Vec<String> {
        self.0.lock().unwrap().log.clone()
    }
    /// Spawn a detached task (used to implement `futures::task::Spawn` / executor traits).
    pub fn spawn(&self, name: impl Into<String>, f: impl Future<Output = ()> + Send + 'static) {
        self.0.lock().unwrap().spawn_q.push((name.into(), Box::pin(f)));
    }
}

impl Future for Gate {
    type Output = ();
    fn poll(mut self: Pin<&mut Self>, cx: &mut Context<'_>) -> Poll<()> {
        let this = &mut *self;
        let mut st = this.h.0.lock().unwrap();
        let idx = match this.idx {
            Some(i) => i,
            None => {
                let k = {
                    let e = st.names.entry(this.name.clone()).or_insert(0);
                    *e += 1;
                    *e
                };
                let name = if k == 1 { this.name.clone() } else { format!("{}#{}", this.name, k) };
                st.gates.push(GateSt { name, open: false, dropped: false, waker: None });
                let i = st.gates.len() - 1;
                this.idx = Some(i);
                i
            }
        };
        if st.gates[idx].open {
            Poll::Ready(())
        } else {
            st.gates[idx].waker = Some(cx.waker().clone());
            Poll::Pending
        }
    }
}

impl Drop for Gate {
    fn drop(&mut self) {
        if let Some(i) = self.idx {
            if let Ok(mut st) = self.h.0.lock() {
                if !st.gates[i].open {
                    st.gates[i].dropped = true;
                }
            }
        }
    }
}

struct TaskWaker {
    woken: AtomicBool,
}
impl Wake for TaskWaker {
    fn wake(self: Arc<Self>) {
        self.woken.store(true, Ordering::SeqCst);
    }
    fn wake_by_ref(self: &Arc<Self>) {
        self.woken.store(true, Ordering::SeqCst);
    }
}

struct Task<'a> {
    name: String,
    fut: Option<Pin<Box<dyn Future<Output = ()> + 'a>>>,
    w: Arc<TaskWaker>,
}

#[derive(Clone, Copy, PartialEq, Eq, Debug)]
pub enum Policy {
    /// Woken tasks are always polled first, oldest first, without a choice;
    /// choices are only which gate opens next. (Completion-order exploration.)
    Eager,
    /// Polling a woken task is a move like opening a gate; switching away from
    /// the task that ran last while it is still woken costs `preempt_class`.
    Full,
}

#[derive(Clone, Debug)]
pub struct RunCfg {
    pub policy: Policy,
    /// Class of choosing a gate other than the first enabled one.
    pub gate_class: Class,
    /// Class of a preemption (Full policy only).
    pub preempt_class: Class,
    pub max_steps: u64,
}
impl Default for RunCfg {
    fn default() -> Self {
        RunCfg { policy: Policy::Eager, gate_class: Class::Exhaustive, preempt_class: Class::Dev(0), max_steps: 10_000 }
    }
}

#[derive(Debug, Clone, PartialEq, Eq)]
pub enum End {
    Done,
    Deadlock,
    Horizon,
}

pub struct RunResult<T> {
    pub output: Option<T>,
    pub end: End,
    pub steps: u64,
    /// Moves taken, in order ("open <gate>", "poll <task>").
    pub schedule: Vec<String>,
    /// Names of gates left closed and live at the end.
    pub pending_gates: Vec<String>,
    /// Tasks (other than root) that had not finished.
    pub unfinished_tasks: Vec<String>,
}

/// Run `root` to completion under the scheduler, all choices drawn from `ch`.
/// `on_move` is called after every move with the move text (for invariants that
/// need to see intermediate states); pass `&mut |_| {}` when unused.
pub fn run<'a, T: 'a>(
    h: &Handle,
    ch: &mut Chooser,
    cfg: &RunCfg,
    root: impl Future<Output = T> + 'a,
    on_move: &mut dyn FnMut(&str),
) -> RunResult<T> {
    let out: Arc<Mutex<Option<T>>> = Arc::new(Mutex::new(None));
    let out2 = out.clone();
    let mut tasks: Vec<Task<'a>> = Vec::new();
    tasks.push(Task {
        name: "root".into(),
        fut: Some(Box::pin(async move {
            let v = root.await;
            *out2.lock().unwrap() = Some(v);
        })),
        w: Arc::new(TaskWaker { woken: AtomicBool::new(true) }),
    });
    let mut schedule = Vec::new();
    let mut steps = 0u64;
    let mut last_task: Option<usize> = None;
    let end;

    let poll_task = |tasks: &mut Vec<Task<'a>>, i: usize| {
        let t = &mut tasks[i];
        t.w.woken.store(false, Ordering::SeqCst);
        let waker = Waker::from(t.w.clone());
        let mut cx = Context::from_waker(&waker);
        if let Some(f) = t.fut.as_mut() {
            if f.as_mut().poll(&mut cx).is_ready() {
                t.fut = None;
            }
        }
    };

    loop {
        // adopt spawned tasks
        let spawned: Vec<(String, BoxFut)> = std::mem::take(&mut h.0.lock().unwrap().spawn_q);
        for (name, f) in spawned {
            let k = tasks.len();
            tasks.push(Task { name: format!("{name}.{k}"), fut: Some(f), w: Arc::new(TaskWaker { woken: AtomicBool::new(true) }) });
        }
        if tasks[0].fut.is_none() {
            end = End::Done;
            break;
        }
        if steps >= cfg.max_steps {
            end = End::Horizon;
            break;
        }
        let woken: Vec<usize> =
            (0..tasks.len()).filter(|i| tasks[*i].fut.is_some() && tasks[*i].w.woken.load(Ordering::SeqCst)).collect();
        let gates: Vec<usize> = {
            let st = h.0.lock().unwrap();
            (0..st.gates.len()).filter(|i| !st.gates[*i].open && !st.gates[*i].dropped).collect()
        };
        steps += 1;
        match cfg.policy {
            Policy::Eager => {
                if let Some(&i) = woken.first() {
                    poll_task(&mut tasks, i);
                    continue;
                }
                if gates.is_empty() {
                    end = End::Deadlock;
                    break;
                }
                let k = ch.pick(cfg.gate_class, "gate", gates.len());
                let name = open_gate(h, gates[k]);
                let mv = format!("open {name}");
                on_move(&mv);
                schedule.push(mv);
            }
            Policy::Full => {
                // canonical menu: last-run task first if still woken, then other
                // woken tasks ascending, then closed gates in registration order.
                let mut menu: Vec<(bool, usize)> = Vec::new(); // (is_task, index)
                let mut classes: Vec<Class> = Vec::new();
                let cont = last_task.filter(|l| woken.contains(l));
                if let Some(l) = cont {
                    menu.push((true, l));
                    classes.push(Class::Exhaustive);
                }
                for &i in &woken {
                    if Some(i) != cont {
                        menu.push((true, i));
                        classes.push(if cont.is_some() { cfg.preempt_class } else { Class::Exhaustive });
                    }
                }
                for &g in &gates {
                    menu.push((false, g));
                    // delivering an environment event while a task could run is also a preemption
                    classes.push(if cont.is_some() { cfg.preempt_class } else { cfg.gate_class });
                }
                if menu.is_empty() {
                    end = End::Deadlock;
                    break;
                }
                if classes[0] != Class::Exhaustive {
                    classes[0] = Class::Exhaustive;
                }
                let k = ch.pick_costed("move", &classes);
                let (is_task, i) = menu[k];
                let mv = if is_task {
                    poll_task(&mut tasks, i);
                    last_task = Some(i);
                    format!("poll {}", tasks[i].name)
                } else {
                    last_task = None;
                    format!("open {}", open_gate(h, i))
                };
                on_move(&mv);
                schedule.push(mv);
            }
        }
    }
    let pending_gates = {
        let st = h.0.lock().unwrap();
        st.gates.iter().filter(|g| !g.open && !g.dropped).map(|g| g.name.clone()).collect()
    };
    let unfinished_tasks = tasks.iter().skip(1).filter(|t| t.fut.is_some()).map(|t| t.name.clone()).collect();
    // drop tasks before reading output (they may hold borrows)
    drop(tasks);
    let output = out.lock().unwrap().take();
    RunResult { output, end, steps, schedule, pending_gates, unfinished_tasks }
}

fn open_gate(h: &Handle, i: usize) -> String {
    let (name, w) = {
        let mut st = h.0.lock().unwrap();
        st.gates[i].open = true;
        (st.gates[i].name.clone(), st.gates[i].waker.take())
    };
    if let Some(w) = w {
        w.wake();
    }
    name
}

/// Poll a future that is expected to make progress on its own (all resolvers
/// ready). Returns `None` when it parks without having been woken.
pub fn drive<T>(fut: impl Future<Output = T>) -> Option<T> {
    let w = Arc::new(TaskWaker { woken: AtomicBool::new(true) });
    let waker = Waker::from(w.clone());
    let mut cx = Context::from_waker(&waker);
    let mut fut = std::pin::pin!(fut);
    let mut spins = 0u64;
    loop {
        if !w.woken.swap(false, Ordering::SeqCst) {
            return None;
        }
        if let Poll::Ready(v) = fut.as_mut().poll(&mut cx) {
            return Some(v);
        }
        spins += 1;
        if spins > 10_000_000 {
            return None;
        }
    }
}

/// A waker that records whether it was woken (for hand-driven `poll_next` harnesses).
pub struct FlagWaker(Arc<TaskWaker>);
impl FlagWaker {
    pub fn new() -> Self {
        FlagWaker(Arc::new(TaskWaker { woken: AtomicBool::new(false) }))
    }
    pub fn waker(&self) -> Waker {
        Waker::from(self.0.clone())
    }
    pub fn take(&self) -> bool {
        self.0.woken.swap(false, Ordering::SeqCst)
    }
}
impl Default for FlagWaker {
    fn default() -> Self {
        Self::new()
    }
}

#[cfg(test)]
mod tests {
    use super::*;
    use crate::explore::{explore, ExploreCfg};

    #[test]
    fn all_gate_orders() {
        let seen = Mutex::new(std::collections::BTreeSet::new());
        let st = explore(
            &ExploreCfg::default(),
            &|c: &mut Chooser| {
                let h = Handle::new();
                let h2 = h.clone();
                let r = run(
                    &h,
                    c,
                    &RunCfg::default(),
                    async move {
                        let a = h2.gate("a");
                        let b = h2.gate("b");
                        let d = h2.gate("c");
                        let h3 = h2.clone();
                        let h4 = h2.clone();
                        let h5 = h2.clone();
                        futures_lite_join3(
                            async move { a.await; h3.log("a") },
                            async move { b.await; h4.log("b") },
                            async move { d.await; h5.log("c") },
                        )
                        .await;
                    },
                    &mut |_| {},
                );
                assert_eq!(r.end, End::Done);
                h.take_log().join("")
            },
            &|_, o| {
                seen.lock().unwrap().insert(o);
            },
        );
        assert_eq!(st.executions, 6);
        assert_eq!(seen.lock().unwrap().len(), 6);
    }

    // minimal join of three futures without external crates
    async fn futures_lite_join3(
        a: impl Future<Output = ()>,
        b: impl Future<Output = ()>,
        c: impl Future<Output = ()>,
    ) {
        let mut a = Box::pin(a);
        let mut b = Box::pin(b);
        let mut c = Box::pin(c);
        let (mut da, mut db, mut dc) = (false, false, false);
        std::future::poll_fn(move |cx| {
            if !da && a.as_mut().poll(cx).is_ready() {
                da = true;
            }
            if !db && b.as_mut().poll(cx).is_ready() {
                db = true;
            }
            if !dc && c.as_mut().poll(cx).is_ready() {
                dc = true;
            }
            if da && db && dc { Poll::Ready(()) } else { Poll::Pending }
        })
        .await
    }

    #[test]
    fn deadlock_is_reported() {
        let mut c = Chooser::new(vec![]);
        let h = Handle::new();
        let r = run(&h, &mut c, &RunCfg::default(), std::future::pending::<()>(), &mut |_| {});
        assert_eq!(r.end, End::Deadlock);
    }
}
