import json
F=[]
def add(cls, match, what, witness):
    F.append({"status":"known","property":"C09","class":cls,"match":match,"what":what,"witness":witness})

dead="VariableInAllowedPosition never runs in production: VisitorCons (src/validation/visitor.rs) does not forward enter_input_value/exit_input_value, so the rule collects no variable usages (its unit tests bypass the composition). Forwarding breaks two existing tests (tests/variables.rs uses spec-invalid queries), so it cannot be repaired under 'tests unedited'"
add("accepts-invalid/AllVariableUsagesAreAllowed", {"clause":["nullability","named-type","list-depth"]}, dead,
    {"schema":"S3","query":"query($v: Int){ nn(n: $v) }","variables":{"v":1},"note":"n: Int!"})

tn="visit_selection (src/validation/visitor.rs) skips `__typename` field nodes entirely: their directives, arguments and sub-selection are never shown to any rule. Not repaired: visiting them needs enter_field/exit_field, which changes FieldsOnCorrectType and the complexity/depth counters"
for rule in ["DirectivesAreDefined","DirectivesAreInValidLocations","DirectivesAreUniquePerLocation","RequiredArguments","ValuesOfCorrectType","ArgumentNames","FieldSelectionMerging","AllVariableUsesDefined"]:
    add("accepts-invalid/"+rule, {"context":["__typename"]}, tn, {"schema":"S1","query":"{ __typename @nope }"})
add("accepts-invalid/ArgumentNames", {"clause":["typename-with-argument"]}, tn, {"schema":"S3","query":"{ __typename(zz: 1) }"})
add("accepts-invalid/LeafFieldSelections", {"clause":["typename-with-selection"]}, tn, {"schema":"S1","query":"{ __typename { a } }"})

vd="visit_variable_definitions (src/validation/visitor.rs) never visits the directives of a variable definition and KnownDirectives has no VARIABLE_DEFINITION location, so any directive there is accepted; fix candidate: notes/fixes/C09-variable-definition-directives.patch"
for rule in ["DirectivesAreDefined","DirectivesAreInValidLocations","ArgumentNames","RequiredArguments","ValuesOfCorrectType"]:
    add("accepts-invalid/"+rule, {"context":["VARIABLE_DEFINITION"]}, vd, {"schema":"S3","query":"mutation M($x: Int @nope) { set(x: $x) }","variables":{"x":1}})

mg="OverlappingFieldsCanBeMerged (src/validation/rules/overlapping_fields_can_be_merged.rs) keys fields by (syntactic type condition of the enclosing fragment, response key) and looks at one selection set at a time: fields under one key behind different (or no) type conditions are never compared, sub-selections of fields that merge are never merged, response shapes are never compared. Not small: needs the spec's pairwise FieldsInSetCanMerge/SameResponseShape"
clauses=[]
for scope in ["same-scope","merged-subselection"]:
    for via in ["same-condition","different-condition"]:
        for kind in ["shape","field","args","subfield-shape"]:
            c=f"{scope}/{via}/{kind}"
            if scope=="same-scope" and via=="same-condition" and kind in ("field","args","shape"):
                continue  # these the rule does catch
            clauses.append(c)
add("accepts-invalid/FieldSelectionMerging", {"context":["plain"],"clause":clauses}, mg, {"schema":"S1","query":"{ ... on Query { a } a: n }"})

du="the parser stores an object literal in an IndexMap (parser/src/parse/mod.rs, Rule::object): a repeated input field silently overwrites the earlier entry, so 5.6.3 is never reported and whatever is wrong inside the overwritten entry is never seen"
add("accepts-invalid/InputObjectFieldUniqueness", {"context":["plain","with-variable","shadowed-duplicate"]}, du, {"schema":"S3","query":"{ io(x: {r: 1, r: 2}) }"})
for rule in ["InputObjectFieldNames","InputObjectRequiredFields","ValuesOfCorrectType","AllVariableUsesDefined"]:
    add("accepts-invalid/"+rule, {"context":["shadowed-duplicate"]}, du, {"schema":"S3","query":"{ io(x: {r: \"x\", r: 1}) }"})

add("accepts-invalid/SingleRootField", {"clause":["not-exactly-one-root"]},
    "no rule checks that a subscription selects exactly one root field (only `__typename` at the subscription root is refused, in visit_selection); not repairable under 'tests unedited': adding the rule (tried in a scratch worktree) fails tests/subscription.rs::test_subscription_with_ctx_data, which pins `subscription { values objects { value } }` yielding one response per root field",
    {"schema":"S1","query":"subscription { evn evnn }"})

add("accepts-invalid/ValuesOfCorrectType", {"clause":["InputObject<-Int","InputObject<-IntOutOfRange","InputObject<-Float","InputObject<-String","InputObject<-Boolean","InputObject<-Enum","InputObject<-List"]},
    "is_valid_input_value (src/validation/utils.rs) returns None for any non-object value given for an input object type; the request then fails in the resolver's argument parsing; fix candidate: notes/fixes/C09-non-object-for-input-object.patch",
    {"schema":"S3","query":"{ io(x: 5) }"})
add("accepts-invalid/ValuesOfCorrectType", {"clause":["Int<-IntOutOfRange"]},
    "the registry's `Int` scalar validates with `Number::is_i64` (src/types/external/integers.rs; one `Int` is shared by i8…i64 fields), so an Int literal outside the 32-bit range passes validation and fails in the resolver; not repaired: narrowing it would reject the 64-bit integers the crate deliberately accepts for i64 fields",
    {"schema":"S3","query":"{ i(x: 2147483648) }"})
add("accepts-invalid/ValuesOfCorrectType", {"clause":["Enum<-String"]},
    "is_valid_input_value accepts ConstValue::String for an enum type (needed for JSON variables); literals are converted with into_const before the check, so the string literal \"X\" is accepted where only the enum value X is valid (5.6.1); not small: the literal/variable distinction is lost before the check",
    {"schema":"S3","query":"{ e(x: \"X\") }"})

wv="ArgumentsOfCorrectType (src/validation/rules/arguments_of_correct_type.rs) resolves variables from the supplied values only and skips the whole argument when one is missing: when a variable inside a list/object literal relies on its default value, the literal parts of that argument are not validated at all"
for rule in ["ValuesOfCorrectType","InputObjectFieldNames","InputObjectRequiredFields","OneOfInputObjects"]:
    add("accepts-invalid/"+rule, {"context":["with-variable"],"vars":["defaulted-omitted"]}, wv, {"schema":"S3","query":"query($a: Int = 1){ l(x: [$a, \"x\"]) }","variables":{}})

add("rejection-without-location", {"operator":["fragments-only"],"stage":["ParseRejected"]},
    "a document without any operation is refused by the parser with Error::MissingOperation, whose positions() is empty (parser/src/lib.rs); not repaired: giving it a position changes a public enum variant",
    {"schema":"S3","query":"fragment F on Query { nums }"})
json.dump({"findings":F}, open('/verif/known_findings.d/C09.json','w'), indent=1, ensure_ascii=False)
print(len(F))
